"""Orchestrator of the TLA+ model-based checks for mlange-42/ark (see DESIGN.md).

Python only orchestrates: it instantiates model families, runs TLC (design check + generator,
and the trace monitor), runs the Go executor built from /repo's working tree, and assembles
verdicts and evidence.  Every expectation about ark's behaviour lives in the TLA+ modules.
"""
import argparse, threading, glob, hashlib, json, os, re, shutil, subprocess, sys, time
from concurrent.futures import ThreadPoolExecutor

VERIF = os.path.abspath(os.path.join(os.path.dirname(os.path.abspath(__file__)), ".."))
REPO = os.environ.get("ARK_REPO") or os.environ.get("VP_RUN_REPO") or "/repo"   # (vp run --with-repo: the run's own snapshot)
SPEC = os.path.join(VERIF, "spec")
HARNESS = os.path.join(VERIF, "harness")
WORKROOT = os.path.join(VERIF, ".work")
NCPU = min(16, os.cpu_count() or 4)
MON_PAR = 10   # measured: monitor throughput saturates at ~65k events/s around 8-10 JVMs

GOENV = dict(os.environ, GOFLAGS="-mod=mod", GOPROXY="off")
for k in ("GOSUMDB", "GOTOOLCHAIN"):
    GOENV.pop(k, None)


class Inconclusive(Exception):
    pass


CRASH_MARKS = ("fatal error:", "unexpected signal", "SIGSEGV", "SIGBUS", "runtime: ", "unexpected fault address")


def exec_proc(ctx, cmd, what, cfg, family, cell):
    """Run the executor.  A Go runtime crash (not a recoverable panic) inside the run is behaviour of the code
    under test: it is confirmed by a second identical run and then reported as <pid>.crash."""
    p, dt = run(cmd, 900)
    if p.returncode == 0:
        return json.loads(p.stdout.strip().splitlines()[-1])
    if any(m in p.stdout for m in CRASH_MARKS):
        first = next((l for l in p.stdout.splitlines() if any(m in l for m in CRASH_MARKS)), "")
        p2, _ = run(cmd, 900)
        if p2.returncode != 0 and any(m in p2.stdout for m in CRASH_MARKS):
            ctx.violations.append(dict(cls=ctx.pid + ".crash", detail=first[:200], line=0, ops=None, cfg=cfg, family=family,
                                       cell=cell, cmd=cmd))
            return None
        if p2.returncode == 0:
            # not reproducible (e.g. timing of the garbage collector): noted, the completed run is used
            ctx.stats.setdefault("flaky_crashes", []).append(dict(family=family, cell=cell, first_line=first[:200]))
            return json.loads(p2.stdout.strip().splitlines()[-1])
    raise Inconclusive("%s failed (harness defect, not a verdict):\n%s" % (what, p.stdout[-2000:]))


def log(*a):
    print(*a, file=sys.stderr, flush=True)


def run(cmd, timeout, env=None, cwd=None, stdout=None):
    t0 = time.time()
    try:
        p = subprocess.run(cmd, cwd=cwd, env=env, stdout=stdout or subprocess.PIPE, stderr=subprocess.STDOUT,
                           timeout=timeout, text=(stdout is None))
    except subprocess.TimeoutExpired:
        raise Inconclusive("timeout after %ss: %s" % (timeout, " ".join(cmd[:6])))
    return p, time.time() - t0


# ------------------------------------------------------------------------------------------
# TLA+ value rendering for MC modules

def tla(v):
    if isinstance(v, bool):
        return "TRUE" if v else "FALSE"
    if isinstance(v, int):
        return str(v)
    if isinstance(v, str):
        return '"%s"' % v
    if isinstance(v, (set, frozenset)):
        return "{" + ", ".join(sorted(tla(x) for x in v)) + "}"
    if isinstance(v, (list, tuple)):
        return "<<" + ", ".join(tla(x) for x in v) + ">>"
    if isinstance(v, dict):
        return "[" + ", ".join("%s |-> %s" % (k, tla(x)) for k, x in v.items()) + "]"
    raise TypeError(v)


def S(*xs):
    return frozenset(xs)


def F(with_=(), without=(), excl=False, ftc=(), qtc=()):
    return dict([("with", S(*with_)), ("without", S(*without)), ("excl", excl), ("ftc", S(*ftc)), ("qtc", S(*qtc))])


# ------------------------------------------------------------------------------------------
# Model families (DESIGN.md section 6).  `consts` instantiate ArkGen; `tiers` override per tier.

ALL_INV = ["NoPanic", "Refines", "AOK", "BIndexOK", "BFreeList", "BSpare", "BTables", "BRelIndex", "BCache",
           "BCacheIds", "UniqueHandles", "DeadNotTarget", "QueriesExact", "BLock", "BOpenRows", "BGraph", "BRes"]

FAMILIES = {
    "core": dict(
        consts=dict(CompSeq=["A", "B"], RelSet=S(), CapN=1, CapR=1, ResetThr=1, MaxIds=3, MaxGen=2, MaxTabs=8,
                    OpKinds=S("New", "Add", "Remove", "Set", "Kill", "Copy", "Exchange", "NewNoInit", "AddNoInit"),
                    NewSets=S(S(), S("A"), S("A", "B")), DeltaSets=S(S("A"), S("B"), S("A", "B")),
                    FilterCat=[], RegCat=S()),
        tiers=dict(quick=dict(MaxHist=6, EmitPct=6), thorough=dict(MaxHist=7, EmitPct=10)),
        exec=dict(comps=["A", "B"]),
    ),
    "rel": dict(
        consts=dict(CompSeq=["A", "R"], RelSet=S("R"), CapN=1, CapR=1, ResetThr=1, MaxIds=3, MaxGen=2, MaxTabs=8,
                    OpKinds=S("New", "Add", "Remove", "SetRel", "Kill", "Shrink", "KillBatch", "SetRelBatch"),
                    NewSets=S(S(), S("R"), S("A", "R")), DeltaSets=S(S("A"), S("R")),
                    FilterCat=[F(with_=["R"]), F(with_=["R"], qtc=["R"])], RegCat=S()),
        tiers=dict(quick=dict(MaxHist=5, EmitPct=25), thorough=dict(MaxHist=6, EmitPct=20)),
        exec=dict(comps=["A", "R"]),
    ),
    "cache": dict(
        consts=dict(CompSeq=["A", "R"], RelSet=S("R"), CapN=1, CapR=1, ResetThr=1, MaxIds=3, MaxGen=1, MaxTabs=8,
                    OpKinds=S("New", "Add", "Remove", "SetRel", "Kill", "Shrink", "RegF", "UnregF", "KillBatch", "Reset"),
                    NewSets=S(S(), S("A", "R"), S("R")), DeltaSets=S(S("A")),
                    FilterCat=[F(with_=["R"]), F(with_=["R"], ftc=["R"]), F(with_=["A"], without=["R"]),
                               F(with_=["R"], qtc=["R"])],
                    RegCat=S(1, 2, 3)),
        tiers=dict(quick=dict(MaxHist=5, EmitPct=30), thorough=dict(MaxHist=6, EmitPct=25)),
        exec=dict(comps=["A", "R"]),
    ),
}

FAMILIES["batch"] = dict(
    consts=dict(CompSeq=["A", "B", "R"], RelSet=S("R"), CapN=1, CapR=1, ResetThr=1, MaxIds=4, MaxGen=1, MaxTabs=10,
                OpKinds=S("New", "NewBatch", "Remove", "Kill", "AddBatch", "RemoveBatch", "ExchangeBatch", "SetRelBatch", "KillBatch"),
                NewSets=S(S(), S("A"), S("A", "B"), S("A", "R")), DeltaSets=S(S("A"), S("B"), S("R")),
                FilterCat=[F(with_=["A"]), F(with_=["B"], without=["A"]), F(with_=["R"], qtc=["R"]), F(), F(with_=["A"], without=["B"])],
                RegCat=S()),
    tiers=dict(quick=dict(MaxHist=4, EmitPct=40), thorough=dict(MaxHist=5, EmitPct=8)),
    exec=dict(comps=["A", "B", "R"]),
)
EVENTS = ["OnCreateEntity", "OnRemoveEntity", "OnAddComponents", "OnRemoveComponents", "OnSetComponents",
          "OnAddRelations", "OnRemoveRelations", "Custom0"]


def random_obscat(comps, rel, n):
    """n observer specifications drawn (seeded) from the whole space over comps; two of them share an event type
    so that the per-event aggregates of the observer manager interact."""
    import random

    def mk(seed):
        r = random.Random(seed * 7919 + 13)
        cat = []
        evs = [r.choice(EVENTS) for _ in range(n - 1)]
        evs.append(evs[0])
        for ev in evs:
            pool = rel if ev in ("OnAddRelations", "OnRemoveRelations") else comps
            obs = [c for c in pool if r.random() < 0.4]
            w = [c for c in comps if r.random() < 0.25]
            excl = r.random() < 0.15
            wo = [] if excl else [c for c in comps if c not in w and r.random() < 0.25]
            cat.append(dict([("ev", ev), ("obs", S(*obs)), ("with", S(*w)), ("without", S(*wo)), ("excl", excl)]))
        return cat
    return mk


FAMILIES["obs"] = dict(
    consts=dict(CompSeq=["A", "R"], RelSet=S("R"), CapN=1, CapR=1, ResetThr=1, MaxIds=3, MaxGen=1, MaxTabs=6, ValMode="const",
                OpKinds=S("New", "Add", "Remove", "Kill", "SetRel", "Set", "RegO", "Emit", "KillBatch", "SetRelBatch", "NewBatch"),
                NewSets=S(S(), S("A"), S("A", "R")), DeltaSets=S(S("A"), S("R")),
                FilterCat=[F(), F(with_=["R"])], RegCat=S()),
    obscat=random_obscat(["A", "R"], ["R"], 3),
    tiers=dict(quick=dict(MaxHist=5, EmitPct=4), thorough=dict(MaxHist=6, EmitPct=2)),
    exec=dict(comps=["A", "R"]),
)
FAMILIES["dump"] = dict(
    consts=dict(CompSeq=["A"], RelSet=S(), CapN=1, CapR=1, ResetThr=1, MaxIds=4, MaxGen=2, MaxTabs=4, ValMode="const",
                OpKinds=S("New", "Kill", "DumpLoad", "Reset", "NewBatch", "Load"),
                NewSets=S(S(), S("A")), DeltaSets=S(S("A")), FilterCat=[], RegCat=S()),
    tiers=dict(quick=dict(MaxHist=7, EmitPct=15), thorough=dict(MaxHist=9, EmitPct=5)),
    exec=dict(comps=["A"]),
)
# resources (layer A: w.res; C18: a partial map from type to value, C16: Reset removes them), with entities, Reset, Load
FAMILIES["res"] = dict(
    consts=dict(CompSeq=["A"], RelSet=S(), CapN=1, CapR=1, ResetThr=1, MaxIds=2, MaxGen=1, MaxTabs=4, ValMode="const",
                OpKinds=S("New", "Kill", "Reset", "Load", "Res"), ResSet=S("X", "Y"),
                NewSets=S(S("A")), DeltaSets=S(S("A")), FilterCat=[], RegCat=S()),
    tiers=dict(quick=dict(MaxHist=6, EmitPct=40), thorough=dict(MaxHist=8, EmitPct=10)),
    exec=dict(comps=["A"]),
)
FAMILIES["lock"] = dict(
    consts=dict(CompSeq=["A", "R"], RelSet=S("R"), CapN=1, CapR=1, ResetThr=1, MaxIds=3, MaxGen=1, MaxTabs=6, MaxLocks=3, MaxOpen=3,
                ValMode="const",
                OpKinds=S("New", "Kill", "Set", "QOpen", "RegF", "UnregF", "Reset"),
                NewSets=S(S("A"), S("A", "R")), DeltaSets=S(S("A")),
                FilterCat=[F(with_=["A"]), F(with_=["R"], qtc=["R"]), F()], RegCat=S(1, 3)),
    tiers=dict(quick=dict(MaxHist=7, EmitPct=8), thorough=dict(MaxHist=9, EmitPct=4)),
    exec=dict(comps=["A", "R"]),
)
FAMILIES["shrink"] = dict(
    consts=dict(CompSeq=["R"], RelSet=S("R"), CapN=1, CapR=1, ResetThr=1, MaxIds=4, MaxGen=1, MaxTabs=6, ValMode="const",
                OpKinds=S("New", "Kill", "SetRel", "Shrink", "Remove", "Add"),
                NewSets=S(S(), S("R")), DeltaSets=S(S("R")),
                FilterCat=[F(with_=["R"])], RegCat=S()),
    tiers=dict(quick=dict(MaxHist=7, EmitPct=2), thorough=dict(MaxHist=8, EmitPct=3)),
    exec=dict(comps=["R"]),
)

FAMILIES["wide"] = dict(
    consts=dict(CompSeq=["A", "B", "C", "R"], RelSet=S("R"), CapN=2, CapR=1, ResetThr=1, MaxIds=12, MaxGen=3, MaxTabs=64,
                EmitMode="last",
                OpKinds=S("New", "Add", "Remove", "Exchange", "Set", "SetRel", "Kill", "Copy", "Shrink", "KillBatch", "SetRelBatch",
                          "RegF", "UnregF"),
                NewSets=S(S(), S("A"), S("B"), S("C"), S("R"), S("A", "B"), S("A", "C"), S("B", "C"), S("A", "R"), S("B", "R"),
                          S("C", "R"), S("A", "B", "C"), S("A", "B", "R"), S("A", "C", "R"), S("B", "C", "R"), S("A", "B", "C", "R")),
                DeltaSets=S(S("A"), S("B"), S("C"), S("R"), S("A", "B")),
                FilterCat=[F(with_=["R"]), F(with_=["R"], qtc=["R"]), F(with_=["A"]), F(with_=["R"], ftc=["R"])], RegCat=S(1, 3, 4)),
    tiers=dict(quick=dict(MaxHist=40), thorough=dict(MaxHist=60)),
    simulate=dict(quick=dict(num=1500), thorough=dict(num=20000)),
    exec=dict(comps=["A", "B", "C", "R"]),
)

# seeded random drivers (real code -> specification): long histories at larger scale, DESIGN.md 4.2
DRIVES = {
    "wide": dict(comps=["A", "B", "C", "R"], maxent=20, extra=dict(grid=15), quick=dict(count=160, len=300), thorough=dict(count=1200, len=500)),
    "rel2": dict(comps=["A", "R", "S"], maxent=14, extra=dict(grid=15), quick=dict(count=160, len=250), thorough=dict(count=1200, len=400)),
    "obs": dict(comps=["A", "B", "R"], maxent=8, extra=dict(observers=5, obsp=120, grid=10), quick=dict(count=300, len=150), thorough=dict(count=2500, len=250)),
    "obs2": dict(comps=["A", "R", "S"], maxent=8, extra=dict(observers=6, obsp=150, grid=10), quick=dict(count=300, len=150), thorough=dict(count=2500, len=250)),
    "lock": dict(comps=["A", "B", "R"], maxent=10, extra=dict(queries=6, observers=2, grid=15, reglocked=True), quick=dict(count=300, len=200), thorough=dict(count=2500, len=300)),
    "lock64": dict(comps=["A", "R"], maxent=6, extra=dict(queries=62, reglocked=True), quick=dict(count=60, len=400), thorough=dict(count=400, len=600)),
    "reset": dict(comps=["A", "B", "R"], maxent=10, extra=dict(observers=3, resetp=25, stats=True, resp=60), quick=dict(count=300, len=200), thorough=dict(count=2000, len=300)),
    "reset2": dict(comps=["A", "R", "S"], maxent=8, extra=dict(observers=3, resetp=40, queries=2, resp=60), quick=dict(count=200, len=200), thorough=dict(count=1500, len=300)),
    "arity": dict(comps=["A", "B", "C", "R", "S", "F1", "F2", "F3", "F4", "F5", "F6", "F7"], maxent=10,
                  extra=dict(arity=True, grid=50, typedobs=True, observers=3, queries=2),
                  quick=dict(count=120, len=250), thorough=dict(count=1200, len=400)),
    "rich": dict(comps=["A", "P", "Q"], maxent=14, extra=dict(grid=30), quick=dict(count=120, len=250), thorough=dict(count=1000, len=400)),
    "mem": dict(comps=["A", "P", "Q"], maxent=24, extra=dict(mem=True, gcstress=True, resetp=10), quick=dict(count=120, len=300), thorough=dict(count=1000, len=500)),
    "mem64": dict(comps=["P", "B", "Q"], maxent=150, extra=dict(mem=True, gcstress=True), quick=dict(count=40, len=900), thorough=dict(count=250, len=1500)),
    "big": dict(comps=["A", "B"], maxent=260, extra=dict(batchn=90, mem=True), quick=dict(count=30, len=250), thorough=dict(count=150, len=500)),
    "plain": dict(comps=["A", "B", "C"], maxent=40, extra=dict(grid=15), quick=dict(count=100, len=400), thorough=dict(count=600, len=800)),
}

# executor cells: the quantifiers the specification does not range over
CELLS = {
    "typed1":   dict(path="typed", caps=[1], relst="idx"),
    "typed11":  dict(path="typed", caps=[1, 1], relst="typ", perm=True),
    "unsafe1":  dict(path="unsafe", caps=[1], relst="id"),
    "unsafe2":  dict(path="unsafe", caps=[2, 1], relst="id"),
    "exch8":    dict(path="exchange", caps=[8], relst="idx", perm=True),
    "typedfill": dict(path="typed", caps=[1], relst="idx", fill=62),
    "typed53":  dict(path="typed", caps=[5, 3], relst="idx"),
    "mapt1":    dict(path="typed", caps=[1], relst="idx", mapt=True),
    "mapt42":   dict(path="typed", caps=[4, 2], relst="typ", mapt=True, perm=True),
    "unsafe3":  dict(path="unsafe", caps=[3], relst="id"),
}

# property -> list of (family, [cells]) ; quick picks a seed-chosen subset of cells
PLANS = {
    "C01": [("core", ["typed1", "unsafe1", "exch8", "typed11", "typedfill", "mapt1"]), ("rel", ["typed1", "unsafe2", "mapt1"]),
            ("drive:wide", ["typed1", "unsafe2", "exch8", "mapt42"]), ("drive:plain", ["typed11", "unsafe1"]),
            ("drive:big", ["typed1", "unsafe3"]), ("drive:rich", ["typed1", "unsafe2"]), ("drive:arity", ["typed11"]), ("suite", [])],
    "C02": [("core", ["typed1", "unsafe1"]), ("rel", ["typed11", "unsafe1"]), ("drive:wide", ["typed1", "unsafe2"]),
            ("drive:rel2", ["typed11", "unsafe1"]), ("dump", ["typed1", "unsafe2"]), ("drive:reset", ["typed1", "unsafe2"]), ("drive:arity", ["typed11"]), ("suite", []), ("poolind", [])],
    "C03": [("core", ["typed1", "unsafe1", "typedfill"]), ("rel", ["typed1", "unsafe1", "typed11"]), ("cache", ["typed1"]),
            ("drive:wide", ["typed1", "unsafe2"]), ("drive:rel2", ["typed11", "unsafe1"]), ("drive:lock", ["typed1", "typed11", "unsafe2"]),
            ("drive:arity", ["typed11"]), ("cursor", [])],
    "C04": [("rel", ["typed1", "unsafe1", "typed11", "unsafe2"]), ("drive:rel2", ["typed11", "unsafe1"]),
            ("drive:wide", ["typed1", "unsafe2"]), ("suite", [])],
    "C05": [("cache", ["typed1", "typed11", "unsafe1"]), ("drive:wide", ["typed1", "unsafe2"]), ("drive:rel2", ["typed11", "unsafe1"])],
    "C15": [("rel", ["typed1", "unsafe2"]), ("cache", ["typed1", "unsafe1"]), ("shrink", ["typed1", "unsafe2"]),
            ("drive:wide", ["typed1", "unsafe2", "typed53"]), ("drive:rel2", ["typed11", "unsafe1", "unsafe3"])],
}

# per-property executor settings (quick, thorough): probes = query battery size, misuse = misuse battery size
PROP_CFG = {
    "C10": (dict(probes=0, misuse=10), dict(probes=0, misuse=-1)),
}
PLANS["C08"] = [("obsmodel", []), ("obsenum", ["typed1", "unsafe2", "mapt1"]), ("obs", ["typed1", "unsafe2", "typed11"]), ("drive:obs", ["typed1", "unsafe2", "typed11", "mapt42"]),
                ("drive:obs2", ["typed11", "unsafe1", "mapt1"])]
PLANS["C09"] = [("obs", ["typed1", "unsafe2", "typed11", "mapt1"]), ("drive:obs", ["typed1", "unsafe2", "typed11", "mapt42"]),
                ("drive:obs2", ["typed11", "unsafe1", "mapt1"]), ("drive:arity", ["typed11"])]
PROP_CFG["C08"] = (dict(probes=1), dict(probes=2))
PROP_CFG["C09"] = (dict(probes=1), dict(probes=2))
PLANS["C06"] = [("batch", ["typed1", "typed11", "exch8", "typed53"]), ("drive:wide", ["typed1", "exch8", "typed53"]),
                ("drive:rel2", ["typed11", "typed1"]), ("drive:rich", ["typed1", "exch8"]), ("drive:arity", ["typed11", "exch8"]), ("suite", [])]
PLANS["C19"] = [("statsmodel", []), ("core", ["typed1", "unsafe1"]), ("cache", ["typed1", "unsafe2"]),
                ("drive:wide", ["typed1", "unsafe2", "typed53"]), ("drive:lock", ["typed1", "unsafe1"]), ("drive:obs", ["typed11"])]
PROP_CFG["C19"] = (dict(probes=1, stats=True), dict(probes=2, stats=True))
PLANS["C18"] = [("res", ["typed1", "unsafe2", "mapt1"]), ("drive:reset", ["typed1", "unsafe2", "mapt1"])]
PLANS["C16"] = [("cache", ["typed1", "unsafe2"]), ("res", ["typed1", "unsafe2", "mapt1"]), ("drive:reset", ["typed1", "unsafe2", "typed11"]), ("drive:reset2", ["typed11", "unsafe1"])]
PLANS["C17"] = [("dump", ["typed1", "unsafe2", "typed53"]), ("drive:reset", ["typed1", "unsafe2", "typed11", "typed53"]), ("drive:reset2", ["typed11", "unsafe1"])]
PLANS["C11"] = [("core", ["typed1", "unsafe1", "exch8", "mapt1"]), ("batch", ["typed1", "typed53"]),
                ("drive:mem", ["typed1", "unsafe2", "exch8", "typed11", "mapt42"]), ("drive:big", ["typed1", "unsafe3", "typed53"]), ("drive:mem64", ["typed1", "unsafe3", "typed53"]), ("drive:arity", ["typed11"])]
PLANS["C07"] = [("lock", ["typed1", "unsafe2", "typed11"]), ("drive:lock", ["typed1", "unsafe2", "typed11"]), ("drive:lock64", ["typed1", "unsafe1"]),
                ("drive:arity", ["typed11", "exch8"]),
                ("cursor", []), ("suite", []), ("lockind", [])]
PROP_CFG["C07"] = (dict(probes=2, misuse=8), dict(probes=4, misuse=-1))
PLANS["C10"] = [("core", ["typed1", "unsafe1", "exch8", "mapt1"]), ("rel", ["typed1", "unsafe1", "typed11", "mapt1"]),
                ("drive:rel2", ["typed11", "unsafe1", "mapt42"]), ("drive:wide", ["typed1", "unsafe2", "exch8"]),
                ("drive:lock", ["typed1", "unsafe2"]), ("drive:reset2", ["typed11", "unsafe1"]), ("drive:arity", ["typed11"]), ("suite", [])]


# ------------------------------------------------------------------------------------------

class Ctx:
    def __init__(self, pid, tier, seed):
        self.pid, self.tier, self.seed = pid, tier, seed
        self.work = os.path.join(WORKROOT, "%s-%s-%d" % (pid, tier, os.getpid()))
        shutil.rmtree(self.work, ignore_errors=True)
        os.makedirs(self.work)
        self.t0 = time.time()
        self.stats = dict(states=0, transitions=0, sequences=0, traces=0, events=0, cells=[], families=[],
                          tlc_cmds=[], samples=[], design_findings=[], distinct=set(), coverage_zero=[], model_fidelity=[])
        self.violations = []   # dicts: cls, seq(ops), cfg, family, line, detail
        self.binpath = None

    def cleanup(self):
        if not os.environ.get("VERIF_KEEP"):
            shutil.rmtree(self.work, ignore_errors=True)


def trim_go_cache():
    """Every build from a scratch copy of the repository leaves its own entries in the Go build cache (measured:
    118 GB after ten hours of sweeps).  When less than 20 GB of disk are free the cache is emptied (the next builds
    take ~1 min longer)."""
    try:
        st = os.statvfs(os.path.expanduser("~"))
        if st.f_bavail * st.f_frsize < 20 * 2 ** 30:
            subprocess.run(["go", "clean", "-cache"], env=GOENV, timeout=600)
    except Exception:
        pass


def build_executor(ctx, tags="verif", name="arkexec"):
    trim_go_cache()
    out = os.path.join(ctx.work, name)
    # the typed wrappers are generated code; regenerate if missing
    gen = os.path.join(HARNESS, "arkx", "typed_gen.go")
    if not os.path.exists(gen):
        subprocess.check_call([sys.executable, os.path.join(HARNESS, "gen", "gen.py"), "12", gen])
    hdir = HARNESS
    if os.path.realpath(REPO) != "/repo":
        # a scratch copy of the repository (seed sweeps): build from a private copy of the harness
        hdir = os.path.join(ctx.work, "harness")
        if not os.path.exists(hdir):
            shutil.copytree(HARNESS, hdir)
        gm = open(os.path.join(hdir, "go.mod")).read().replace("=> /repo", "=> " + os.path.realpath(REPO))
        open(os.path.join(hdir, "go.mod"), "w").write(gm)
    shutil.copy(os.path.join(REPO, "go.sum"), os.path.join(hdir, "go.sum"))
    p, dt = run(["go", "build", "-tags", tags, "-o", out, "./cmd/arkexec"], 600, env=GOENV, cwd=hdir)
    if p.returncode != 0:
        raise Inconclusive("executor build failed:\n" + p.stdout[-3000:])
    if name == "arkexec":
        ctx.binpath = out
    return out


def write_model(ctx, fam, over=None, inv=None):
    """Instantiate family `fam` as MC_<fam>.tla + cfg in the work directory."""
    f = FAMILIES[fam]
    consts = dict(ValMode="ord", EmitPct=100, EmitSeed=ctx.seed, EmitMode="all", MaxLocks=3, MaxOpen=2, ObsCat=[], ResSet=S())
    if f.get("obscat"):
        consts["ObsCat"] = f["obscat"](ctx.seed)
    consts.update(f["consts"])
    consts.update(f["tiers"][ctx.tier])
    if over:
        consts.update(over)
    d = os.path.join(ctx.work, "model-" + fam)
    os.makedirs(d, exist_ok=True)
    for t in glob.glob(os.path.join(SPEC, "*.tla")):
        shutil.copy(t, d)
    defs, cfg = [], []
    for k, v in consts.items():
        if isinstance(v, (int, bool)) and not isinstance(v, bool):
            cfg.append("  %s = %d" % (k, v))
        else:
            defs.append("mc_%s == %s" % (k, tla(v)))
            cfg.append("  %s <- mc_%s" % (k, k))
    open(os.path.join(d, "MC_%s.tla" % fam), "w").write(
        "---- MODULE MC_%s ----\nEXTENDS ArkGen\n%s\n====\n" % (fam, "\n".join(defs)))
    inv = inv or f.get("invariants", ALL_INV)
    open(os.path.join(d, "MC_%s.cfg" % fam), "w").write(
        "SPECIFICATION Spec\nCONSTANTS\n%s\nVIEW View\nCONSTRAINT Bounded\nACTION_CONSTRAINT Emit\n"
        "CHECK_DEADLOCK FALSE\nINVARIANTS %s\nPROPERTIES ShrinkProps CbProps\n" % ("\n".join(cfg), " ".join(inv)))
    return d, consts


def parse_tlc_stats(text):
    m = re.search(r"(\d+) states generated, (\d+) distinct states found", text)
    return (int(m.group(1)), int(m.group(2))) if m else (0, 0)


OBSERVABLE_INV = ["NoPanic", "Refines", "AOK", "UniqueHandles", "QueriesExact", "BOpenRows"]


def run_generator(ctx, fam, timeout, invariants=None):
    over_inv = invariants
    d, consts = write_model(ctx, fam, inv=over_inv)
    outp = os.path.join(d, "tlc.out")
    sim = FAMILIES[fam].get("simulate")
    if sim:
        sim = sim[ctx.tier]
        w = 8
        cmd = ["tlc", "-workers", str(w), "-simulate", "num=%d" % max(1, sim["num"] // w), "-depth", str(consts["MaxHist"] + 1),
               "-seed", str(ctx.seed), "-metadir", os.path.join(d, "meta"),
               "-dumpTrace", "json", os.path.join(d, "cex.json"),
               "-config", "MC_%s.cfg" % fam, "MC_%s.tla" % fam]
    else:
        cmd = ["tlc", "-workers", str(NCPU), "-metadir", os.path.join(d, "meta"),
               "-dumpTrace", "json", os.path.join(d, "cex.json"),
               "-config", "MC_%s.cfg" % fam, "MC_%s.tla" % fam]
    ctx.stats["tlc_cmds"].append(" ".join(cmd[:3] + cmd[7:]) + "  # family %s %s" % (fam, json.dumps(
        {k: v for k, v in consts.items() if isinstance(v, int)})))
    with open(outp, "wb") as fo:
        p, dt = run(cmd, timeout, cwd=d, stdout=fo)
    seqs = os.path.join(d, "seqs.txt")
    rest = []
    n = 0
    with open(outp, errors="replace") as fi, open(seqs, "w") as fs:
        for line in fi:
            if line.startswith('"SEQ '):
                fs.write(line)
                n += 1
            else:
                rest.append(line)
    text = "".join(rest)
    gen, dist = parse_tlc_stats(text)
    res = dict(family=fam, dir=d, seqs=seqs, nseq=n, generated=gen, distinct=dist, wall=dt, design_violation=None)
    if "Error:" in text:
        m = re.search(r"Error: (Invariant|Action property|Temporal properties) ?(\w+)? ?(is|were) violated", text)
        if m and os.path.exists(os.path.join(d, "cex.json")):
            res["design_violation"] = m.group(2) or m.group(1)
        else:
            raise Inconclusive("TLC failed on family %s:\n%s" % (fam, text[-3000:]))
    elif sim:
        m = re.search(r"states checked: (\d+)", text) or re.search(r"(\d+) states checked", text)
        gen = dist = int(m.group(1)) if m else n * consts["MaxHist"]
        if n == 0:
            raise Inconclusive("TLC simulation produced no behaviour for family %s:\n%s" % (fam, text[-2000:]))
    elif "Model checking completed" not in text:
        raise Inconclusive("TLC did not complete on family %s:\n%s" % (fam, text[-2000:]))
    ctx.stats["states"] += dist
    ctx.stats["transitions"] += gen
    ctx.stats["families"].append(dict(family=fam, states=dist, transitions=gen, sequences=n, wall_s=round(dt, 1),
                                      consts={k: v for k, v in consts.items() if isinstance(v, int)}))
    return res


def cex_sequence(gen):
    d = json.load(open(os.path.join(gen["dir"], "cex.json")))
    states = d["counterexample"]["state"]
    hist = states[-1][1]["hist"]
    p = os.path.join(gen["dir"], "cex.seq")
    open(p, "w").write(json.dumps(hist) + "\n")
    return p


def run_exec(ctx, seqfile, cfg, outprefix, shards, keep=1000):
    """Replay seqfile under executor cfg in `shards` processes; returns list of log paths."""
    def one(i):
        outp = "%s.%d.ndjson" % (outprefix, i)
        cmd = [ctx.binpath, "-in", seqfile, "-out", outp, "-cfg", json.dumps(cfg), "-shards", str(shards),
               "-shard", str(i), "-keep", str(keep)]
        st = exec_proc(ctx, cmd, "executor", cfg, os.path.basename(os.path.dirname(outprefix)), os.path.basename(outprefix))
        return outp, (st or dict(read=0, executed=0, events=0, panics=0, crashed=True))
    with ThreadPoolExecutor(max_workers=min(shards, NCPU)) as ex:
        return list(ex.map(one, range(shards)))


def run_monitor(ctx, logpath, timeout=1800):
    d = os.path.dirname(logpath)
    meta = logpath + ".meta"
    env = dict(os.environ, TRACE_FILE=logpath, JAVA_TOOL_OPTIONS="-XX:ParallelGCThreads=1 -XX:CICompilerCount=2 -Xms1g -Xmx4g -XX:-UseAdaptiveSizePolicy -Xss64m")
    cmd = ["tlc", "-workers", "1", "-metadir", meta, "-config", os.path.join(SPEC, "cfg", "trace.cfg"),
           os.path.join(d, "ArkTrace.tla")]
    p, dt = run(cmd, timeout, env=env, cwd=d)
    shutil.rmtree(meta, ignore_errors=True)
    m = re.search(r'^"VERDICT (.*)"$', p.stdout, re.M)
    if not m or "Model checking completed. No error has been found" not in p.stdout:
        raise Inconclusive("monitor did not produce a verdict for %s:\n%s" % (logpath, p.stdout[-3000:]))
    verdict = json.loads(json.loads('"' + m.group(1) + '"'))
    return verdict


_SEQ_CACHE = {}


def load_seq_of_log(logpath, seqno):
    """Return the generated op sequence number `seqno` (1-based) executed into logpath."""
    key = logpath
    if key not in _SEQ_CACHE:
        if len(_SEQ_CACHE) > 4:
            _SEQ_CACHE.clear()
        try:
            with open(logpath + ".seqs") as f:
                _SEQ_CACHE[key] = f.readlines()
        except OSError:
            _SEQ_CACHE[key] = []
    lines = _SEQ_CACHE[key]
    if 1 <= seqno <= len(lines):
        try:
            return json.loads(lines[seqno - 1])
        except ValueError:
            return None
    return None


def replay_family(ctx, gen, cells, keep, probes, extra_cfg=None, budget=None):
    """Replay the generated sequences of a family under every cell.  With a budget (events per family) the share of
    sequences replayed (keep, per mille, seed-chosen) and the number of log shards are fitted to it after a pilot
    of 300 sequences has measured the events per sequence of each cell, so that logs stay around 150 k events."""
    fam = gen["family"]
    fexec = FAMILIES[fam]["exec"]
    shards = max(1, MON_PAR // max(1, len(cells)))
    jobs = []
    for ci, cell in enumerate(cells):
        cfg = dict(CELLS[cell])
        cfg.update(comps=fexec["comps"], probes=probes, seed=ctx.seed * 1000 + ci)
        if extra_cfg:
            cfg.update(extra_cfg)
        jobs.append((cell, cfg))
    results = []
    t0 = time.time()
    for cell, cfg in jobs:
        prefix = os.path.join(gen["dir"], "log-" + cell)
        k, sh = keep, shards
        if budget:
            pilot = prefix + ".pilot.ndjson"
            st = exec_proc(ctx, [ctx.binpath, "-in", gen["seqs"], "-out", pilot, "-cfg", json.dumps(cfg), "-max", "300"],
                           "executor", cfg, fam, cell)
            for pth in (pilot, pilot + ".seqs"):
                if os.path.exists(pth):
                    os.remove(pth)
            per_seq = (st["events"] / max(1, st["executed"])) if st else 20.0
            share = budget / max(1, len(jobs))
            k = max(1, min(1000, int(1000 * share / max(1.0, gen["nseq"] * per_seq))))
            sh = max(shards, min(64, int(share / 150000) + 1))
        outs = run_exec(ctx, gen["seqs"], cfg, prefix, sh, k)
        keep = k
        results.append((cell, cfg, outs))
    t1 = time.time()
    # validate all logs in parallel
    logs = [(cell, cfg, lp, st) for cell, cfg, outs in results for lp, st in outs if st["executed"] > 0]
    with ThreadPoolExecutor(max_workers=MON_PAR) as ex:
        verdicts = list(ex.map(lambda j: run_monitor(ctx, j[2]), logs))
    log("  family %s: gen %d seqs (%.0fs), exec %d logs keep=%d (%.0fs), monitor (%.0fs)" % (
        fam, gen["nseq"], gen["wall"], len(logs), keep, t1 - t0, time.time() - t1))
    for (cell, cfg, lp, st), v in zip(logs, verdicts):
        if v["seqs"] != st["executed"] or v["lines"] != st["events"]:
            raise Inconclusive("monitor consumed %s/%s lines of %s" % (v["lines"], st["events"], lp))
        ctx.stats["traces"] += v["seqs"]
        ctx.stats["events"] += v["lines"]
        for vi in v["viol"]:
            ops = load_seq_of_log(lp, vi["seq"])
            ctx.violations.append(dict(cls=vi["cls"], detail=vi["d"], line=vi["l"], ops=ops, cfg=cfg, family=fam, cell=cell))
        if not ctx.stats["samples"] and st["executed"] > 0:
            with open(lp) as f:
                lines = [next(f) for _ in range(3)]
            ctx.stats["samples"].append(dict(family=fam, cell=cell, ops=load_seq_of_log(lp, 1),
                                            log_head=[json.loads(x) for x in lines[:2]]))
    for cell, cfg, outs in results:
        ctx.stats["cells"].append(dict(family=fam, cell=cell, cfg=cfg, sequences=sum(s["executed"] for _, s in outs),
                                       events=sum(s["events"] for _, s in outs), panics=sum(s["panics"] for _, s in outs)))
    if not os.environ.get("VERIF_KEEP"):
        for cell, cfg, outs in results:
            for lp, _ in outs:
                for pth in (lp, lp + ".seqs"):
                    if os.path.exists(pth):
                        os.remove(pth)


def drive_family(ctx, name, cells, probes, extra_cfg=None):
    """Seeded random histories on the real world, validated by the monitor."""
    dr = DRIVES[name]
    t = dr[ctx.tier]
    d = os.path.join(ctx.work, "drive-" + name)
    os.makedirs(d, exist_ok=True)
    for tl in glob.glob(os.path.join(SPEC, "*.tla")):
        shutil.copy(tl, d)
    # logs of bounded size (~60k events), so that every monitor run stays short; as many logs as needed.  The events
    # per history depend on the batteries of the property (probes, misuse ...): measured with a pilot of 3 histories.
    pcfg = dict(CELLS[cells[0]])
    pcfg.update(comps=dr["comps"], probes=probes, seed=ctx.seed, reuse=True, maxent=dr["maxent"])
    pcfg.update(dr.get("extra", {}))
    if extra_cfg:
        pcfg.update(extra_cfg)
    pilot = os.path.join(d, "pilot.ndjson")
    pst = exec_proc(ctx, [ctx.binpath, "-drive", "3", "-len", str(t["len"]), "-out", pilot, "-cfg", json.dumps(pcfg)], "driver", pcfg, "drive:" + name, cells[0])
    for pth in (pilot, pilot + ".seqs"):
        if os.path.exists(pth):
            os.remove(pth)
    per_hist = max(2 * t["len"] + 40, int(pst["events"] / 3) if pst else 0)
    per_log = max(1, 60000 // per_hist)
    shards = max(1, min(-(-t["count"] // (per_log * len(cells))), 400))
    shards = max(shards, min(MON_PAR // max(1, len(cells)), t["count"] // max(1, len(cells))) or 1)
    per = max(1, t["count"] // (shards * len(cells)))
    jobs = []
    for ci, cell in enumerate(cells):
        for sh in range(shards):
            cfg = dict(CELLS[cell])
            cfg.update(comps=dr["comps"], probes=probes, seed=ctx.seed * 100003 + ci * 1009 + sh, reuse=True, maxent=dr["maxent"])
            cfg.update(dr.get("extra", {}))
            if extra_cfg:
                cfg.update(extra_cfg)
            jobs.append((cell, cfg, os.path.join(d, "log-%s.%d.ndjson" % (cell, sh))))
    t0 = time.time()

    def one(j):
        # execute, validate, delete: at most MON_PAR logs exist at any time (the histories stay in <log>.seqs)
        cell, cfg, outp = j
        st = exec_proc(ctx, [ctx.binpath, "-drive", str(per), "-len", str(t["len"]), "-out", outp, "-cfg", json.dumps(cfg)],
                       "driver", cfg, "drive:" + name, cell)
        if not st:
            return dict(read=0, executed=0, events=0, panics=0, crashed=True), None
        v = run_monitor(ctx, outp)
        if not os.environ.get("VERIF_KEEP") and os.path.exists(outp):
            os.remove(outp)
        return st, v
    with ThreadPoolExecutor(max_workers=MON_PAR) as ex:
        both = list(ex.map(one, jobs))
    t1 = time.time()
    live = [(j, stt, v) for j, (stt, v) in zip(jobs, both) if not stt.get("crashed")]
    jobs, stats, verdicts = [j for j, _, _ in live], [stt for _, stt, _ in live], [v for _, _, v in live]
    log("  drive %s: %d histories x %d ops in %d logs, executed and validated in %.0fs" % (name, per * len(jobs), t["len"], len(jobs), t1 - t0))
    for (cell, cfg, lp), stt, v in zip(jobs, stats, verdicts):
        if v["seqs"] != stt["executed"] or v["lines"] != stt["events"]:
            raise Inconclusive("monitor consumed %s/%s lines of %s" % (v["lines"], stt["events"], lp))
        ctx.stats["traces"] += v["seqs"]
        ctx.stats["events"] += v["lines"]
        for vi in v["viol"]:
            ops = load_seq_of_log(lp, vi["seq"])
            ctx.violations.append(dict(cls=vi["cls"], detail=vi["d"], line=vi["l"], ops=ops, cfg=cfg, family="drive:" + name, cell=cell))
        ctx.stats["cells"].append(dict(family="drive:" + name, cell=cell, cfg=cfg, sequences=stt["executed"], events=stt["events"], panics=stt["panics"]))
    ctx.stats["families"].append(dict(family="drive:" + name, histories=per * len(jobs), ops_each=t["len"], maxent=dr["maxent"]))


def run_obs_model(ctx):
    """Design check of the observer manager (ArkObs.tla): aggregates, early-outs, batch loops, recomputation on
    unregistration against Fires from the documentation, for every set of <= MaxReg observers of the whole
    specification space, one TLC run per event type."""
    d = os.path.join(ctx.work, "model-obsdispatch")
    os.makedirs(d, exist_ok=True)
    for t in glob.glob(os.path.join(SPEC, "*.tla")):
        shutil.copy(t, d)
    open(os.path.join(d, "MC_obs.tla"), "w").write(
        '---- MODULE MC_obs ----\nEXTENDS ArkObs\nmc_Comp == {"A", "R"}\nmc_Rel == {"R"}\n====\n')
    maxreg = 2 if ctx.tier == "quick" else 3
    evs = ["OnCreateEntity", "OnRemoveEntity", "OnAddComponents", "OnRemoveComponents", "OnSetComponents", "OnAddRelations",
           "OnRemoveRelations", "Custom0"]

    def one(ev):
        cfg = os.path.join(d, "obs_%s.cfg" % ev)
        open(cfg, "w").write('SPECIFICATION Spec\nCONSTANTS\n  Comp <- mc_Comp\n  Rel <- mc_Rel\n  Ev = "%s"\n  MaxReg = %d\n'
                             'INVARIANTS DispatchOK AggOK\nCHECK_DEADLOCK FALSE\n' % (ev, maxreg))
        p, dt = run(["tlc", "-workers", "4", "-metadir", os.path.join(d, "meta_" + ev), "-config", cfg, "MC_obs.tla"], 1200, cwd=d)
        gen, dist = parse_tlc_stats(p.stdout)
        if "Model checking completed. No error has been found" not in p.stdout:
            m = re.search(r"Invariant (\w+) is violated", p.stdout)
            return ev, gen, dist, (m.group(1) if m else "error: " + p.stdout[-1500:])
        return ev, gen, dist, None
    with ThreadPoolExecutor(max_workers=4) as ex:
        res = list(ex.map(one, evs))
    for ev, gen, dist, bad in res:
        ctx.stats["states"] += dist
        ctx.stats["transitions"] += gen
        ctx.stats["families"].append(dict(family="obsdispatch:" + ev, states=dist, transitions=gen, maxreg=maxreg))
        if bad:
            if bad.startswith("error"):
                raise Inconclusive("ArkObs failed for %s: %s" % (ev, bad))
            ctx.stats["design_findings"].append(dict(family="obsdispatch:" + ev, invariant=bad))
    ctx.stats["tlc_cmds"].append("tlc -config obs_<event>.cfg MC_obs.tla  # ArkObs, MaxReg=%d, 8 event types" % maxreg)


def obsenum_sequences(ctx, path):
    """Behaviours of the ArkObs state machine as histories for the real world: every ordered choice of <= 3 observers
    of one event type from a pool of specifications, every order of unregistering some of them, followed by a fixed
    stimulus script that causes every kind of transition.  Quick tier: a seeded sample."""
    import itertools, random
    rnd = random.Random(ctx.seed)
    comps = ["A", "B", "R"]

    def op(name, **kw):
        d = dict(op=name, e=0, add=[], rem=[], vals={}, tg={}, n=1, f=0, mode="val", o=0, ev="",
                 flt={"with": [], "without": [], "excl": False, "ft": {}, "qt": {}},
                 obs={"ev": "", "obs": [], "with": [], "without": [], "excl": False})
        d.update(kw)
        return d
    allf = {"with": [], "without": [], "excl": False, "ft": {}, "qt": {}}
    rflt = {"with": ["R"], "without": [], "excl": False, "ft": {}, "qt": {}}
    stimulus = [
        op("New"), op("New", add=["A"], vals={"A": 21}), op("New", add=["A", "R"], vals={"A": 31, "R": 33}, tg={"R": 1}),
        op("New", add=["A", "B"], vals={"A": 41, "B": 42}), op("NewBatch", add=["B", "R"], tg={"R": 0}, n=2, mode="fn"),
        op("Add", e=2, add=["B"], vals={"B": 22}), op("Add", e=1, add=["R"], vals={"R": 13}, tg={"R": 2}),
        op("Set", e=2, add=["A"], vals={"A": 26}), op("Set", e=4, add=["A", "B"], vals={"A": 46, "B": 47}),
        op("SetRel", e=3, tg={"R": 2}), op("SetRel", e=3, tg={"R": 2}), op("Emit", e=4, add=["A"], ev="Custom0"),
        op("Emit", e=0, ev="Custom0"), op("Exchange", e=4, add=["R"], rem=["B"], vals={"R": 43}, tg={"R": 0}),
        op("Remove", e=2, rem=["B"]), op("Remove", e=3, rem=["R"]), op("Copy", e=1),
        op("AddBatch", add=["B"], vals={"B": 90}, mode="fn", flt={"with": ["A"], "without": ["B"], "excl": False, "ft": {}, "qt": {}}),
        op("SetRelBatch", tg={"R": 2}, mode="fn", flt=rflt), op("RemoveBatch", rem=["B"], mode="fn",
                                                                 flt={"with": ["B"], "without": [], "excl": False, "ft": {}, "qt": {}}),
        op("Kill", e=1), op("KillBatch", mode="fn", flt=allf),
    ]
    n = 0
    with open(path, "w") as f:
        for ev in EVENTS:
            rel = ev in ("OnAddRelations", "OnRemoveRelations")
            pool = [dict(ev=ev, obs=[], **{"with": [], "without": [], "excl": False}),
                    dict(ev=ev, obs=[], **{"with": ["A"], "without": [], "excl": False}),
                    dict(ev=ev, obs=[], **{"with": ["R"], "without": [], "excl": False}),
                    dict(ev=ev, obs=(["R"] if rel else ["A"]), **{"with": [], "without": [], "excl": False}),
                    dict(ev=ev, obs=(["R"] if rel else ["A", "B"]), **{"with": ["B"], "without": [], "excl": False}),
                    dict(ev=ev, obs=[], **{"with": [], "without": ["A"], "excl": False}),
                    dict(ev=ev, obs=[], **{"with": ["A"], "without": [], "excl": True})]
            for k in (1, 2, 3):
                for regs in itertools.permutations(range(len(pool)), k):
                    unregs = [()]
                    for m in range(1, k):
                        unregs += list(itertools.permutations(range(1, k + 1), m))
                    for un in unregs:
                        if ctx.tier == "quick" and rnd.random() > 0.10:
                            continue
                        seq = [op("RegO", o=i + 1, obs=pool[r]) for i, r in enumerate(regs)]
                        seq += [op("UnregO", o=u) for u in un]
                        f.write(json.dumps(seq + stimulus) + "\n")
                        n += 1
    return n


def run_obsenum(ctx, cells, probes):
    d = os.path.join(ctx.work, "model-obsenum")
    os.makedirs(d, exist_ok=True)
    for t in glob.glob(os.path.join(SPEC, "*.tla")):
        shutil.copy(t, d)
    seqs = os.path.join(d, "seqs.txt")
    n = obsenum_sequences(ctx, seqs)
    FAMILIES.setdefault("obsenum", dict(exec=dict(comps=["A", "B", "R"]), tiers=dict(quick=dict(MaxHist=26), thorough=dict(MaxHist=26))))
    gen = dict(family="obsenum", dir=d, seqs=seqs, nseq=n, generated=0, distinct=0, wall=0, design_violation=None)
    ctx.stats["families"].append(dict(family="obsenum", sequences=n,
                                      note="registration / unregistration orders of <= 3 observers per event type (ArkObs behaviours) + stimulus script"))
    # thorough: every history, in as many log shards as an event budget of 9 M asks for (quick: a 10 % sample, see
    # obsenum_sequences, in the default number of shards)
    replay_family(ctx, gen, cells, 1000, probes, budget=None if ctx.tier == "quick" else 9000000)


def choose_cells(ctx, cells):
    if ctx.tier == "thorough" or len(cells) <= 2:
        return cells
    # quick: two seed-chosen cells (always including the first)
    k = 1 + (ctx.seed % (len(cells) - 1))
    return [cells[0], cells[k]]


# ------------------------------------------------------------------------------------------
# Known findings

def load_known():
    p = os.path.join(VERIF, "KNOWN_FINDINGS.json")
    if not os.path.exists(p):
        return []
    return [k for k in json.load(open(p))["findings"] if k.get("status") == "open"]


def sig_of(v):
    """Signature of a violation: class + the kinds of the last operations before the failing line."""
    ops = v.get("ops") or []
    return dict(cls=v["cls"], ops=[o["op"] for o in ops])


def matches_known(v, k):
    if v["cls"] != k["class"]:
        return False
    ops = [o["op"] for o in (v.get("ops") or [])]
    need = k.get("requires_ops", [])
    # subsequence match
    it = iter(ops)
    return all(any(o == n for o in it) for n in need)


# ------------------------------------------------------------------------------------------

def write_replay(ctx, v, n):
    d = os.path.join(VERIF, "replays") if os.path.realpath(REPO) == "/repo" else os.path.join(WORKROOT, "replays-scratch")
    os.makedirs(d, exist_ok=True)
    p = os.path.join(d, "%s-%s-%d.json" % (ctx.pid, v["cls"].replace(".", "_"), n))
    json.dump(dict(property=ctx.pid, cls=v["cls"], detail=v["detail"], family=v["family"], cfg=v["cfg"], ops=v["ops"],
                   line=v["line"], cmd=v.get("cmd")), open(p, "w"), indent=1)
    return p


def exec_one(ctx, ops, cfg, tag):
    """Execute one sequence with the full probe battery after every op; returns the monitor's violations."""
    d = os.path.join(ctx.work, "single-" + tag)
    os.makedirs(d, exist_ok=True)
    for t in glob.glob(os.path.join(SPEC, "*.tla")):
        shutil.copy(t, d)
    seq = os.path.join(d, "s.seq")
    open(seq, "w").write(json.dumps(ops) + "\n")
    outs = run_exec(ctx, seq, dict(cfg, probes=-1, everyop=True), os.path.join(d, "log"), 1)
    return run_monitor(ctx, outs[0][0])["viol"]


def attribute_by_ablation(ctx):
    """C15 / C16 are differential statements: a disagreement belongs to them iff it disappears when the
    Shrink calls are removed from the history (C15), resp. when the history before the Reset is removed
    and the rest runs on a fresh world (C16)."""
    extra, done = [], set()
    # shortest histories first; a handful of confirmed attributions is enough for a verdict
    cand = sorted([v for v in ctx.violations if v.get("ops")], key=lambda v: len(v["ops"]))
    for v in cand:
        if len(extra) >= 5 or len(done) >= 40:
            break
        ops = v.get("ops") or []
        kinds = [o["op"] for o in ops]
        key = json.dumps(ops, sort_keys=True) + json.dumps(v["cfg"], sort_keys=True)
        if key in done:
            continue
        done.add(key)
        if ctx.pid == "C15" and "Shrink" in kinds:
            twin = [o for o in ops if o["op"] != "Shrink"]
            tv = exec_one(ctx, twin, v["cfg"], "c15-%d" % len(done))
            if not tv:
                extra.append(dict(v, cls="C15.visible", detail=dict(original_class=v["cls"], detail=v["detail"])))
        if ctx.pid == "C16" and "Reset" in kinds:
            last = len(kinds) - 1 - kinds[::-1].index("Reset")
            twin = ops[last + 1:]
            tv = exec_one(ctx, twin, v["cfg"], "c16-%d" % len(done)) if twin else []
            if not tv:
                extra.append(dict(v, cls="C16.diverge", detail=dict(original_class=v["cls"], detail=v["detail"])))
    ctx.violations.extend(extra)


def finish(ctx, level_text):
    if ctx.pid in ("C15", "C16") and ctx.violations:
        attribute_by_ablation(ctx)
    # "ANY." classes (the world cannot be read through valid API calls any more) count for whichever property is checked
    for v in ctx.violations:
        if v["cls"].startswith("ANY."):
            v["cls"] = ctx.pid + v["cls"][3:]
    # A call that is valid in layer A and panics in the real code ends the history: the property under check quantifies
    # over histories of valid operations and cannot hold for one the library refuses to continue.  When the check has
    # nothing of its own to report, such a panic is reported for the property checked (e.g. World.Reset panicking inside
    # cache.Reset after an unregistration: seed C05-cache-reset-ranges-over-ids).
    if not any(v["cls"].startswith(ctx.pid + ".") for v in ctx.violations):
        for v in list(ctx.violations):
            if v["cls"].endswith(".valid-call-panicked") and not v["cls"].startswith(ctx.pid + "."):
                ctx.violations.append(dict(v, cls=ctx.pid + ".valid-call-panicked"))
    own = [v for v in ctx.violations if v["cls"].startswith(ctx.pid + ".")]
    other = [v for v in ctx.violations if not v["cls"].startswith(ctx.pid + ".")]
    drift = [v for v in other if v["cls"].startswith("MODEL.")]
    if drift and not own:
        raise Inconclusive("the real code accepts a call the stand-alone model rejects (%s, %s): the model does not describe "
                           "this code" % (drift[0]["cls"], str(drift[0]["detail"])[:300]))
    known = load_known()
    reported, hits = [], {}
    for v in own:
        k = next((k for k in known if k["property"] == ctx.pid and matches_known(v, k)), None)
        if k:
            hits.setdefault(k["id"], k)
        else:
            reported.append(v)
    for kid, k in hits.items():
        print("KNOWN-FINDING: property=%s %s" % (ctx.pid, k["what"]))
    seen = set()
    nrep = 0
    for v in reported:
        key = (v["cls"], json.dumps(v["ops"], sort_keys=True))
        if key in seen:
            continue
        seen.add(key)
        nrep += 1
        if nrep <= 5:
            p = write_replay(ctx, v, nrep)
            print("VIOLATION property=%s replay=%s" % (ctx.pid, p))
            print("  class=%s detail=%s cell=%s ops=%s" % (v["cls"], json.dumps(v["detail"])[:200], v["cell"],
                                                        " ".join(o["op"] for o in (v["ops"] or []))))
    st = ctx.stats
    if os.environ.get("VERIF_DUMP"):
        json.dump(ctx.violations, open(os.environ["VERIF_DUMP"], "w"), default=list)
    hist = {}
    for v in ctx.violations:
        hist[v["cls"]] = hist.get(v["cls"], 0) + 1
    if hist:
        log("violation classes (all properties):", json.dumps(hist, sort_keys=True))
        shown = set()
        for v in ctx.violations:
            if v["cls"] not in shown and len(shown) < 12:
                shown.add(v["cls"])
                log("  e.g. %s cell=%s detail=%s ops=%s" % (v["cls"], v["cell"], json.dumps(v["detail"])[:160],
                    json.dumps([[o["op"], o["e"], o["add"], o["rem"], o["tg"], o["f"], o["mode"]] for o in (v["ops"] or [])])[:600]))
    ev = dict(
        property_id=ctx.pid, tier=ctx.tier, seed=ctx.seed, level="model_checking",
        coverage=dict(
            states=st["states"], transitions=st["transitions"],
            traces_validated_against_impl=st["traces"],
            evaluations=st["events"],
            samples=st["samples"] or [{"note": "no sequence executed"}],
            exhaustive=False,
            rule="TLC breadth-first over the bounded model families listed in `families` (design check: layer-B invariants "
                 "and refinement to layer A in every state); one op sequence per transition; each replayed on the real "
                 "ecs.World under the executor cells in `cells` (quick tier: seed-chosen subset) and every logged event "
                 "validated by the TLA+ monitor ArkTrace",
            families=st["families"], cells=st["cells"], tlc_cmds=st["tlc_cmds"],
            other_property_classes_seen=sorted({v["cls"] for v in other}),
            known_findings_hit=sorted(hits.keys()),
            api_cover=st.get("api_cover"), unbatch_cover=st.get("unbatch_cover"),
            design_findings=st["design_findings"],
            flaky_crashes=st.get("flaky_crashes", []),
        ),
        assumptions=["TLC, the Go toolchain and the executor/monitor pair are trusted", level_text],
        wall_s=round(time.time() - ctx.t0, 1),
        violations=nrep,
    )
    # runs against a scratch copy of the repository (seed sweeps) must not overwrite the evidence of /repo
    evdir = os.path.join(VERIF, "evidence") if os.path.realpath(REPO) == "/repo" else os.path.join(WORKROOT, "evidence-scratch")
    os.makedirs(evdir, exist_ok=True)
    json.dump(ev, open(os.path.join(evdir, ctx.pid + ".json"), "w"), indent=1, default=list)
    return 1 if nrep else 0


def check_generic(ctx):
    build_executor(ctx)
    gens = run_plan(ctx, PLANS[ctx.pid])
    if ctx.pid == "C06":
        unbatch_product(ctx, gens)
    return finish(ctx, "bounded: see families/cells")


def run_plan(ctx, plan):
    """The stages of a plan: BFS families (design check, replay of the emitted transitions, monitor), drivers, models."""
    gens = {}
    quick = ctx.tier == "quick"
    for fam, cells in plan:
        pc = PROP_CFG.get(ctx.pid, (dict(probes=6), dict(probes=24)))[0 if quick else 1]
        if fam == "obsmodel":
            run_obs_model(ctx)
            continue
        if fam == "statsmodel":
            gen_, dist_, bad_ = run_tlc_model(ctx, "ArkStats", "", "SPECIFICATION Spec\nCONSTANTS\n  MaxArch = 2\n  MaxTab = %d\n  MaxSize = 1\n"
                                              "INVARIANTS IncrementalEqualsFresh Algebra\nCHECK_DEADLOCK FALSE\n" % (2 if quick else 3), "stats", timeout=1500)
            if bad_:
                ctx.stats["design_findings"].append(dict(family="stats", invariant=bad_))
            continue
        if fam == "obsenum":
            run_obsenum(ctx, choose_cells(ctx, cells), 1)
            continue
        if fam == "cursor":
            cursor_stage(ctx, [("plain", ctx.binpath)])
            continue
        if fam == "suite":
            suite_trace_stage(ctx)
            continue
        if fam == "poolind":
            pool_induction_stage(ctx)
            continue
        if fam == "lockind":
            lock_induction_stage(ctx)
            continue
        if fam.startswith("drive:"):
            drive_family(ctx, fam[6:], cells, pc.get("probes", 0),
                         extra_cfg={k: v for k, v in pc.items() if k != "probes"})
            continue
        gen = run_generator(ctx, fam, 1500 if not quick else 400)
        if gen["design_violation"] and gen["design_violation"] not in OBSERVABLE_INV:
            # a structural invariant of layer B fails: not observable by itself.  Record it and look for
            # an observable consequence within the same bounds.
            ctx.stats["design_findings"].append(dict(family=fam, invariant=gen["design_violation"],
                                                     ops=[o["op"] for o in json.load(open(cex_sequence(gen)))]))
            gen = run_generator(ctx, fam, 1500 if not quick else 400, invariants=OBSERVABLE_INV)
        shutil.copy(os.path.join(SPEC, "ArkTrace.tla"), gen["dir"])
        if gen["design_violation"]:
            # The design check failed: replay the counterexample on the real code.  Only a rejection
            # by the monitor is a verdict; otherwise layer B misrepresents the code (model drift).
            seq = cex_sequence(gen)
            g2 = dict(gen, seqs=seq)
            before = len(ctx.violations)
            replay_family(ctx, g2, cells, 1000, -1, extra_cfg=dict(everyop=True))
            if len(ctx.violations) == before:
                raise Inconclusive("design check of family %s violates %s but the counterexample is accepted on the "
                                   "real code: layer B drifted from the implementation" % (fam, gen["design_violation"]))
            continue
        ctx.stats["sequences"] += gen["nseq"]
        # quick tier: replay a seed-chosen sample of the transitions sized to the budget
        nbfs = max(1, len([1 for f, _ in plan if not f.startswith("drive:") and f not in ("obsmodel", "obsenum", "statsmodel", "cursor", "suite", "poolind", "lockind")]))
        budget = (400000 // nbfs) if quick else (9000000 // nbfs)   # events per family
        cs = choose_cells(ctx, cells)
        per_seq = FAMILIES[fam]["tiers"][ctx.tier]["MaxHist"] + 7
        keep = 1000 if gen["nseq"] * len(cs) * per_seq <= budget else max(1, int(1000 * budget / (gen["nseq"] * len(cs) * per_seq)))
        replay_family(ctx, gen, cs, keep, pc.get("probes", 0), extra_cfg={k: v for k, v in pc.items() if k != "probes"},
                      budget=None if quick else budget)
        gens[fam] = gen
    return gens


def unbatch_product(ctx, gens):
    """C06, differential: every history is executed twice - with the batch operations as they are, and with every
    batch operation replaced by the single-entity operations it abbreviates (harness/arkx/unbatch.go) - and the
    two logs are compared by ArkProd (mode C06: same world by creation ordinal, same query results as bags, same
    callbacks, same panics), including whatever later operations reveal of the state the batch left behind."""
    quick = ctx.tier == "quick"
    variants = variants_for(ctx, "C06")
    sources = []
    g = gens.get("batch")
    if g:
        for cell in ["typed1", "exch8"]:
            sources += bfs_sources(g, 2000 if quick else 30000, dict(CELLS[cell], comps=FAMILIES["batch"]["exec"]["comps"], probes=2, seed=ctx.seed))
    counts = dict(wide=40, rel2=40, rich=40) if quick else dict(wide=300, rel2=300, rich=300)
    sources += driven_sources(ctx, ctx.binpath, ["wide", "rel2", "rich"], counts, "typed1", {})
    sources += driven_sources(ctx, ctx.binpath, ["wide", "rich"], counts, "exch8", {})
    cover = {}
    product_check(ctx, "C06", variants, sources, "c06-unbatch", cover=cover)
    ctx.stats["unbatch_cover"] = {k: v for k, v in cover.items() if k.startswith("unbatch")}
    if sum(v for k, v in cover.items() if k.startswith("unbatched.")) == 0:
        raise Inconclusive("no batch operation was executed entity by entity")


def run_tlc_model(ctx, module, mcdefs, cfgtext, label, workers=8, timeout=900):
    """Run TLC on a stand-alone model (no emission); returns (generated, distinct, violated-invariant or None)."""
    d = os.path.join(ctx.work, "model-" + label)
    os.makedirs(d, exist_ok=True)
    for t in glob.glob(os.path.join(SPEC, "*.tla")):
        shutil.copy(t, d)
    open(os.path.join(d, "MC_x.tla"), "w").write("---- MODULE MC_x ----\nEXTENDS %s\n%s\n====\n" % (module, mcdefs))
    open(os.path.join(d, "x.cfg"), "w").write(cfgtext)
    p, dt = run(["tlc", "-workers", str(workers), "-metadir", os.path.join(d, "meta"), "-config", "x.cfg", "MC_x.tla"], timeout, cwd=d)
    gen, dist = parse_tlc_stats(p.stdout)
    ctx.stats["states"] += dist
    ctx.stats["transitions"] += gen
    bad = None
    if "Model checking completed. No error has been found" not in p.stdout:
        m = re.search(r"(Invariant|Action property|Temporal properties) ?(\w+)? ?(is|were) violated", p.stdout)
        if not m:
            raise Inconclusive("TLC failed on %s:\n%s" % (label, p.stdout[-2500:]))
        bad = m.group(2) or m.group(1)
    ctx.stats["families"].append(dict(family=label, states=dist, transitions=gen, wall_s=round(dt, 1), violated=bad))
    ctx.stats["tlc_cmds"].append("tlc -config x.cfg MC_x.tla  # %s: %s" % (label, cfgtext.replace("\n", "; ")[:300]))
    return gen, dist, bad


def exec_logs_and_monitor(ctx, jobs, label):
    """jobs: list of (cmd, cfg, logpath, cell).  Runs the executor commands, then the monitor on every log."""
    def one(j):
        cmd, cfg, lp, cell = j
        return exec_proc(ctx, cmd, label, cfg, label, cell) or dict(read=0, executed=0, events=0, panics=0, crashed=True)
    with ThreadPoolExecutor(max_workers=NCPU) as ex:
        stats = list(ex.map(one, jobs))
    live = [(j, st) for j, st in zip(jobs, stats) if not st.get("crashed")]
    for (cmd, cfg, lp, cell), st in live:
        shutil.copy(os.path.join(SPEC, "ArkTrace.tla"), os.path.dirname(lp))
        shutil.copy(os.path.join(SPEC, "ArkWorld.tla"), os.path.dirname(lp))
    with ThreadPoolExecutor(max_workers=MON_PAR) as ex:
        verdicts = list(ex.map(lambda js: run_monitor(ctx, js[0][2]), live))
    for ((cmd, cfg, lp, cell), st), v in zip(live, verdicts):
        if v["seqs"] != st["executed"] or v["lines"] != st["events"]:
            raise Inconclusive("monitor consumed %s/%s lines of %s" % (v["lines"], st["events"], lp))
        ctx.stats["traces"] += v["seqs"]
        ctx.stats["events"] += v["lines"]
        for vi in v["viol"]:
            ctx.violations.append(dict(cls=vi["cls"], detail=vi["d"], line=vi["l"], ops=load_seq_of_log(lp, vi["seq"]), cfg=cfg,
                                       family=label, cell=cell, cmd=cmd))
        ctx.stats["cells"].append(dict(family=label, cell=cell, cfg=cfg, sequences=st["executed"], events=st["events"]))
        if not ctx.stats["samples"]:
            with open(lp) as f:
                ctx.stats["samples"].append(dict(family=label, cell=cell, log_head=[json.loads(next(f)) for _ in range(3)]))


CURSOR_MC = """T(rows, ok) == [rows |-> rows, ok |-> ok]
A(m, rel, tabs) == [m |-> m, rel |-> rel, tabs |-> tabs]
mc_Layouts == {
  <<A(TRUE, FALSE, <<T(<<1, 2>>, TRUE)>>)>>,
  <<A(TRUE, FALSE, <<T(<<>>, TRUE)>>), A(TRUE, TRUE, <<T(<<1>>, TRUE), T(<<>>, TRUE), T(<<2, 3>>, FALSE), T(<<4, 5>>, TRUE)>>),
    A(FALSE, FALSE, <<T(<<6>>, TRUE)>>), A(TRUE, FALSE, <<T(<<7>>, TRUE)>>)>>,
  <<>>,
  <<A(TRUE, TRUE, <<T(<<>>, TRUE)>>)>>,
  <<A(TRUE, TRUE, <<T(<<1, 2, 3>>, TRUE)>>), A(TRUE, TRUE, <<T(<<4>>, FALSE), T(<<5>>, TRUE)>>)>>,
  <<A(FALSE, FALSE, <<T(<<1, 2, 3>>, TRUE)>>), A(TRUE, TRUE, <<T(<<>>, TRUE), T(<<4>>, TRUE)>>), A(TRUE, FALSE, <<T(<<>>, TRUE)>>)>>
}"""


def run_cursor_monitor(ctx, logpath, timeout=1800):
    d = os.path.dirname(logpath)
    for t in ("ArkCursor.tla", "ArkCurTrace.tla"):
        atomic_install(os.path.join(SPEC, t), os.path.join(d, t))
    cfgp = os.path.join(d, "curtrace.cfg")
    atomic_install(None, cfgp, "SPECIFICATION TSpec\nINVARIANT Done\nCHECK_DEADLOCK FALSE\n")
    env = dict(os.environ, TRACE_FILE=logpath, JAVA_TOOL_OPTIONS="-XX:ParallelGCThreads=1 -XX:CICompilerCount=2 -Xms1g -Xmx4g -Xss64m")
    p, dt = run(["tlc", "-workers", "1", "-metadir", logpath + ".meta", "-config", cfgp, os.path.join(d, "ArkCurTrace.tla")], timeout, env=env, cwd=d)
    shutil.rmtree(logpath + ".meta", ignore_errors=True)
    m = re.search(r'^"VERDICT (.*)"$', p.stdout, re.M)
    if not m or "Model checking completed. No error has been found" not in p.stdout:
        raise Inconclusive("cursor monitor did not produce a verdict for %s:\n%s" % (logpath, p.stdout[-3000:]))
    return json.loads(json.loads('"' + m.group(1) + '"'))


def cursor_stage(ctx, bins, product=False):
    """The query cursor protocol: ArkCursorMC is model-checked (every call sequence over the model layouts; BuildsAgree,
    LockExact, YieldsExact, ClosedIsFinal, CursorInRange); every call sequence up to a length is run on the real
    queries of every kind over layouts built in the real world (arkexec -cursor) and each recorded outcome is
    compared with ArkCursor!Run by the monitor ArkCurTrace; for C20 the logs of the builds are compared as well."""
    quick = ctx.tier == "quick"
    gen, dist, bad = run_tlc_model(ctx, "ArkCursorMC", CURSOR_MC,
                                   "SPECIFICATION Spec\nCONSTANTS\n  Layouts <- mc_Layouts\n  MaxCalls = %d\n"
                                   "INVARIANTS BuildsAgree LockExact YieldsExact ClosedIsFinal CursorInRange\nCHECK_DEADLOCK FALSE\n" % (10 if quick else 14),
                                   "cursor")
    if bad:
        ctx.stats["design_findings"].append(dict(family="cursor", invariant=bad))
    d = os.path.join(ctx.work, "cursor")
    os.makedirs(d, exist_ok=True)
    n = (5 if product else 6) if quick else 7
    logs = []
    for name, b in bins:
        lp = os.path.join(d, "cur-%s.ndjson" % name)
        cfg = dict(path="typed", caps=[1 + (ctx.seed % 3)], seed=ctx.seed)
        cmd = [b, "-cursor", str(n), "-out", lp, "-cfg", json.dumps(cfg)]
        st = exec_proc(ctx, cmd, "cursor", cfg, "cursor", name)
        if st is None:
            continue
        logs.append((name, lp, cmd, cfg))
    def split_by_layout(lp):
        # one log per layout (each starts with its reset line): validated by monitors running in parallel
        parts, fo, ncur = [], None, [0]
        with open(lp) as fi:
            for line in fi:
                if line.startswith('{"k":"cur"'):
                    ncur[0] += 1
                if line.startswith('{"k":"reset"') or fo is None:
                    if fo:
                        fo.close()
                    parts.append("%s.part%d" % (lp, len(parts)))
                    fo = open(parts[-1], "w")
                fo.write(line)
        if fo:
            fo.close()
        return parts, ncur[0]

    def validate(j):
        parts, ncur = split_by_layout(j[1])
        with ThreadPoolExecutor(max_workers=max(1, MON_PAR // max(1, len(logs)))) as ex2:
            vs = list(ex2.map(lambda pp: run_cursor_monitor(ctx, pp), parts))
        for k, pp in enumerate(parts):
            for vi in vs[k]["viol"]:
                vi["seq"] = "%d/%s" % (k, vi.get("seq"))
            os.remove(pp)
        return dict(lines=sum(v["lines"] for v in vs), seqs=ncur, viol=[vi for v in vs for vi in v["viol"]])

    with ThreadPoolExecutor(max_workers=MON_PAR) as ex:
        verdicts = list(ex.map(validate, logs))
    for (name, lp, cmd, cfg), v in zip(logs, verdicts):
        ctx.stats["traces"] += v["seqs"]
        ctx.stats["events"] += v["lines"]
        # C14: a typed query that disagrees with the cursor model while its ID-based twin (same component list, same
        # per-query target, same layouts) agrees with it differs from the ID-based API
        idbad = set((vi.get("seq"), vi.get("kind", "").replace("unsafe", "typed"), vi["cls"]) for vi in v["viol"]
                    if vi.get("kind", "").startswith("unsafe"))
        for vi in v["viol"][:200]:
            ctx.violations.append(dict(cls=vi["cls"], detail=vi["d"], line=vi["l"], ops=None, cfg=cfg, family="cursor", cell=name, cmd=cmd))
            k = vi.get("kind", "")
            if k.startswith("typed") and vi["cls"][:4] in ("C03.", "C07.") and (vi.get("seq"), k, vi["cls"]) not in idbad:
                ctx.violations.append(dict(cls="C14.query-step", detail="%s: %s %s" % (k, vi["cls"], vi["d"]), line=vi["l"], ops=None,
                                           cfg=cfg, family="cursor", cell=name, cmd=cmd))
        ctx.stats["cells"].append(dict(family="cursor", cell=name, cfg=cfg, sequences=v["seqs"], events=v["lines"], max_calls=n))
    if product and len(logs) > 1:
        atomic_install(os.path.join(SPEC, "ArkProd.tla"), os.path.join(d, "ArkProd.tla"))
        for name, lp, cmd, cfg in logs[1:]:
            out = os.path.join(d, "prod-cur-%s.ndjson" % name)
            nl, same = zip_logs([logs[0][1], lp], "C20", out)
            v = run_prod_monitor(ctx, out)
            ctx.stats["events"] += v["lines"]
            if not same:
                ctx.violations.append(dict(cls="C20.shape", detail="cursor logs differ in length", line=0, ops=None, cfg=cfg, family="cursor", cell=name, cmd=cmd))
            for vi in v["viol"][:200]:
                ctx.violations.append(dict(cls=vi["cls"], detail=vi["d"], line=vi["l"], ops=None, cfg=cfg, family="cursor", cell=name, cmd=cmd))


def suite_trace_stage(ctx):
    """Trace validation of the library's own test suite: a scratch copy of the repository (outside /repo and /verif,
    removed afterwards) gets the tracer test file (harness/tracer), `go test -tags verif ./ecs/` runs with the
    hooks of the library enabled, and the recorded trace - every structural operation of every World the tests
    create, with the state read back after it - is validated by ArkTrace, world by world."""
    import tempfile
    scratch = tempfile.mkdtemp(prefix="arksuite-")
    try:
        dst = os.path.join(scratch, "ark")
        shutil.copytree(REPO, dst, ignore=shutil.ignore_patterns(".git"))
        shutil.copy(os.path.join(HARNESS, "tracer", "zz_verif_tracer_test.go.txt"), os.path.join(dst, "ecs", "zz_verif_tracer_test.go"))
        raw = os.path.join(scratch, "trace.ndjson")
        t0 = time.time()
        p, dt = run(["go", "test", "-vet=off", "-count=1", "-tags", "verif", "./ecs/"], 1500, env=dict(GOENV, ARK_TRACE_OUT=raw), cwd=dst)
        if not os.path.exists(raw) or os.path.getsize(raw) == 0:
            if "TraceSink" in p.stdout or "traceEnabled" in p.stdout or "undefined" in p.stdout:
                raise Inconclusive("the tracing hooks (build tag verif) are missing or do not compile:\n" + p.stdout[-1500:])
            raise Inconclusive("the test suite did not produce a trace:\n" + p.stdout[-1500:])
        suite_ok = p.returncode == 0
        groups = {}
        order = []
        with open(raw) as f:
            for line in f:
                try:
                    wid = json.loads(line).get("wid")
                except ValueError:
                    continue
                if wid not in groups:
                    groups[wid] = []
                    order.append(wid)
                groups[wid].append(line)
        d = os.path.join(ctx.work, "suite")
        os.makedirs(d, exist_ok=True)
        for t in ("ArkTrace.tla", "ArkWorld.tla"):
            shutil.copy(os.path.join(SPEC, t), d)
        lp = os.path.join(d, "suite.ndjson")
        with open(lp, "w") as f:
            for wid in order:
                f.writelines(groups[wid])
        v = run_monitor(ctx, lp)
        nops = sum(1 for wid in order for x in groups[wid] if '"k":"op"' in x)
        ctx.stats["traces"] += v["seqs"]
        ctx.stats["events"] += v["lines"]
        ctx.stats["cells"].append(dict(family="suite", cell="go test -tags verif ./ecs/", worlds=len(order), operations=nops,
                                       suite_passed=suite_ok, wall_s=round(time.time() - t0, 1)))
        lines = open(lp).read().splitlines()
        for vi in v["viol"]:
            test = ""
            try:
                test = json.loads(lines[vi["l"] - 1]).get("test", "")
            except Exception:
                pass
            ctx.violations.append(dict(cls=vi["cls"], detail="test %s: %s" % (test, vi["d"]), line=vi["l"], ops=None, cfg=dict(test=test),
                                       family="suite", cell="suite", cmd=["suite-trace"]))
        log("  suite trace: %d worlds, %d operations, %d events validated (%.0fs)%s" % (
            len(order), nops, v["lines"], time.time() - t0, "" if suite_ok else " - the suite itself FAILS"))
    finally:
        shutil.rmtree(scratch, ignore_errors=True)


def pool_induction_stage(ctx):
    """C02 for histories of any length: ArkPool.tla (the entity pool alone) - TLC checks IndInv on the reachable
    states, Apalache checks that IndInv is inductive (Init => IndInv; IndInv /\\ Next => IndInv'), so that handle
    freshness, exact liveness and the free-list shape hold after ANY number of creations and removals of up to N ids
    with generations below G.  An Apalache run that does not finish within its time limit is recorded, not judged."""
    quick = ctx.tier == "quick"
    n, g = (4, 3) if quick else (5, 3)
    d = os.path.join(ctx.work, "pool")
    os.makedirs(d, exist_ok=True)
    shutil.copy(os.path.join(SPEC, "ArkPool.tla"), d)
    cfg = "INIT Init\nNEXT Next\nCONSTANTS\n  N = %d\n  G = %d\nINVARIANTS IndInv\nCHECK_DEADLOCK FALSE\n" % (n + 1, g)
    open(os.path.join(d, "pool.cfg"), "w").write(cfg)
    p, dt = run(["tlc", "-workers", "8", "-metadir", os.path.join(d, "meta"), "-config", "pool.cfg", "ArkPool.tla"], 900, cwd=d)
    gen, dist = parse_tlc_stats(p.stdout)
    ctx.stats["states"] += dist
    ctx.stats["transitions"] += gen
    bad = None if "Model checking completed. No error has been found" in p.stdout else "IndInv (reachable states)"
    if bad and "is violated" not in p.stdout:
        raise Inconclusive("TLC failed on ArkPool:\n" + p.stdout[-1500:])
    ctx.stats["families"].append(dict(family="pool", states=dist, transitions=gen, wall_s=round(dt, 1), violated=bad, N=n + 1, G=g))
    if bad:
        ctx.stats["design_findings"].append(dict(family="pool", invariant=bad))
    open(os.path.join(d, "apa.cfg"), "w").write("INIT Init\nNEXT Next\nCONSTANTS\n  N = %d\n  G = %d\n" % (n, g))
    res = {}
    for label, args in (("base", ["--init=Init", "--length=0"]), ("step", ["--init=IndInit", "--length=1"])):
        pa, dta = run(["apalache-mc", "check", "--config=apa.cfg", "--inv=IndInv", "--out-dir=" + os.path.join(d, "apa-out")] + args + ["ArkPool.tla"],
                      400 if quick else 2400, cwd=d)
        if "The outcome is: NoError" in pa.stdout:
            res[label] = "holds"
        elif "The outcome is: Error" in pa.stdout:
            res[label] = "violated"
        else:
            res[label] = "not completed (%s)" % (pa.stdout.strip().splitlines()[-1][:120] if pa.stdout.strip() else "no output")
        res[label + "_wall_s"] = round(dta, 1)
    ctx.stats["families"].append(dict(family="pool-induction", tool="apalache-mc 0.58", N=n, G=g, **res))
    if "violated" in (res["base"], res["step"]):
        ctx.stats["design_findings"].append(dict(family="pool-induction", invariant="IndInv is not inductive"))
    log("  pool: TLC %d states; Apalache base %s, step %s" % (dist, res["base"], res["step"]))


def lock_induction_stage(ctx):
    """C07 for histories of any length: ArkLockPool.tla (lock mask + bit pool) - TLC checks IndInv and the properties
    on the reachable states, Apalache checks that IndInv is inductive, so that distinct bits for simultaneously open
    queries, 'locked exactly while a query is open', no unbalanced unlock and the usable capacity hold after ANY
    number of locks, unlocks (in any order) and resets, for pools of B bits."""
    quick = ctx.tier == "quick"
    bt, ba = (5, 6) if quick else (7, 10)
    d = os.path.join(ctx.work, "lockpool")
    os.makedirs(d, exist_ok=True)
    shutil.copy(os.path.join(SPEC, "ArkLockPool.tla"), d)
    open(os.path.join(d, "lp.cfg"), "w").write("SPECIFICATION Spec\nCONSTANTS\n  B = %d\n  ResetClearsAvail = TRUE\n"
                                               "INVARIANTS IndInv HeldDistinct LockedExact NeverUnbalanced CapacityUsable\nCHECK_DEADLOCK FALSE\n" % bt)
    p, dt = run(["tlc", "-workers", "8", "-metadir", os.path.join(d, "meta"), "-config", "lp.cfg", "ArkLockPool.tla"], 900, cwd=d)
    gen, dist = parse_tlc_stats(p.stdout)
    ctx.stats["states"] += dist
    ctx.stats["transitions"] += gen
    bad = None if "Model checking completed. No error has been found" in p.stdout else "IndInv / lock properties (reachable states)"
    if bad and "is violated" not in p.stdout:
        raise Inconclusive("TLC failed on ArkLockPool:\n" + p.stdout[-1500:])
    ctx.stats["families"].append(dict(family="lockpool", states=dist, transitions=gen, wall_s=round(dt, 1), violated=bad, B=bt))
    if bad:
        ctx.stats["design_findings"].append(dict(family="lockpool", invariant=bad))
    open(os.path.join(d, "apa.cfg"), "w").write("INIT Init\nNEXT Next\nCONSTANTS\n  B = %d\n  ResetClearsAvail = TRUE\n" % ba)
    res = {}
    for label, args in (("base", ["--init=Init", "--length=0"]), ("step", ["--init=IndInit", "--length=1"])):
        pa, dta = run(["apalache-mc", "check", "--config=apa.cfg", "--inv=IndInv", "--out-dir=" + os.path.join(d, "apa-out")] + args + ["ArkLockPool.tla"],
                      400 if quick else 2400, cwd=d)
        if "The outcome is: NoError" in pa.stdout:
            res[label] = "holds"
        elif "The outcome is: Error" in pa.stdout:
            res[label] = "violated"
        else:
            res[label] = "not completed (%s)" % (pa.stdout.strip().splitlines()[-1][:120] if pa.stdout.strip() else "no output")
        res[label + "_wall_s"] = round(dta, 1)
    ctx.stats["families"].append(dict(family="lockpool-induction", tool="apalache-mc 0.58", B=ba, **res))
    if "violated" in (res["base"], res["step"]):
        ctx.stats["design_findings"].append(dict(family="lockpool-induction", invariant="IndInv is not inductive"))
    log("  lock pool: TLC %d states; Apalache base %s, step %s" % (dist, res["base"], res["step"]))


def variants_for(ctx, pid):
    """Executor variants of the product checks (also used by --replay)."""
    if pid == "C12":
        b = build_executor(ctx)
        # p4: worlds that load a dump get their own deserialised copy of it, as worlds in different processes would
        return [("p1", b, {}, {}), ("p1again", b, {}, {}), ("p2", b, {}, {"GOGC": "10", "GOMAXPROCS": "2"}),
                ("p3", b, {}, {"GOGC": "400", "GOMAXPROCS": "16"}), ("p4", b, dict(dumpcopy=True), {"GOGC": "50"})]
    if pid == "C14":
        b = build_executor(ctx)
        # (unbatchnew: the ID-based execution creates the entities of a batch creation one by one through Unsafe.NewEntity -
        # there is no ID-based batch creation, and MapN.NewBatchFn must equal the ID-based calls it corresponds to)
        return [("typed", b, dict(CELLS["typed11"]), {}), ("unsafe", b, dict(CELLS["unsafe1"], unbatchnew=True), {}),
                ("typedidx", b, dict(CELLS["typed1"], perm=True), {}), ("exchange", b, dict(CELLS["exch8"]), {}),
                ("mapt", b, dict(CELLS["mapt1"]), {})]
    if pid == "C06":
        b = build_executor(ctx)
        return [("batch", b, {}, {}), ("single", b, dict(unbatch=True), {})]
    if pid == "C20":
        return [(n, build_executor(ctx, t, "arkexec_" + n), {}, {}) for n, t in
                [("plain", "verif"), ("tiny", "verif,ark_tiny"), ("debug", "verif,ark_debug"), ("tinydebug", "verif,ark_tiny,ark_debug")]]
    return None


def do_replay(path, ctxseed=1):
    """Re-execute a recorded violation: the operation sequence under the recorded executor configuration (with the
    full batteries after every operation), through the monitor; product properties through their variants and
    ArkProd; differential properties with their ablation; recorded commands (registry, concurrency, crashes) as they were."""
    r = json.load(open(path))
    pid = r["property"]
    ctx = Ctx(pid, "quick", ctxseed)
    try:
        build_executor(ctx)
        own = []
        if r.get("ops"):
            vs = variants_for(ctx, pid)
            if vs:
                d = os.path.join(ctx.work, "replay")
                os.makedirs(d)
                seq = os.path.join(d, "r.seq")
                open(seq, "w").write(json.dumps(r["ops"]) + "\n")
                cfg = dict(r["cfg"])
                if pid == "C14":
                    for k in ("path", "caps", "relst", "perm", "fill", "mapt"):
                        cfg.pop(k, None)
                product_check(ctx, pid, vs, [("seq", seq, 1000, cfg)], "replay")
            else:
                for vi in exec_one(ctx, r["ops"], r["cfg"], "replay"):
                    ctx.violations.append(dict(cls=vi["cls"], detail=vi["d"], line=vi["l"], ops=r["ops"], cfg=r["cfg"], family="replay", cell="replay"))
                if pid in ("C15", "C16") and ctx.violations:
                    attribute_by_ablation(ctx)
        elif r.get("cmd"):
            cmd = list(r["cmd"])
            name = os.path.basename(cmd[0])
            if name == "arkexec_race":
                out = os.path.join(ctx.work, "arkexec_race")
                p, dt = run(["go", "build", "-race", "-tags", "verif", "-o", out, "./cmd/arkexec"], 1200, env=GOENV, cwd=HARNESS)
                cmd[0] = out
            elif name == "arkexec_tiny":
                cmd[0] = build_executor(ctx, "verif,ark_tiny", "arkexec_tiny")
            elif name == "arkexec_debug":
                cmd[0] = build_executor(ctx, "verif,ark_debug", "arkexec_debug")
            elif name == "arkexec_tinydebug":
                cmd[0] = build_executor(ctx, "verif,ark_tiny,ark_debug", "arkexec_tinydebug")
            else:
                cmd[0] = ctx.binpath
            lp = os.path.join(ctx.work, "replay.ndjson")
            cmd[cmd.index("-out") + 1] = lp
            p, dt = run(cmd, 1200, env=dict(os.environ, GORACE="halt_on_error=0 exitcode=0"))
            if any(m in p.stdout for m in CRASH_MARKS) and p.returncode != 0:
                ctx.violations.append(dict(cls=pid + ".crash", detail="crash", line=0, ops=None, cfg=r["cfg"], family="replay", cell="replay"))
            elif "WARNING: DATA RACE" in p.stdout and "mlange-42/ark/ecs." in p.stdout:
                ctx.violations.append(dict(cls="C13.race", detail="race", line=0, ops=None, cfg=r["cfg"], family="replay", cell="replay"))
            if os.path.exists(lp) and p.returncode == 0 and "-cursor" in cmd:
                for vi in run_cursor_monitor(ctx, lp)["viol"]:
                    ctx.violations.append(dict(cls=vi["cls"], detail=vi["d"], line=vi["l"], ops=None, cfg=r["cfg"], family="replay", cell="replay"))
                if pid == "C20" and name != "arkexec":
                    # the same call sequences in the plain build, compared by ArkProd
                    lp0 = os.path.join(ctx.work, "replay-plain.ndjson")
                    cmd0 = [ctx.binpath] + cmd[1:]
                    cmd0[cmd0.index("-out") + 1] = lp0
                    run(cmd0, 1200)
                    atomic_install(os.path.join(SPEC, "ArkProd.tla"), os.path.join(ctx.work, "ArkProd.tla"))
                    outp = os.path.join(ctx.work, "replay-prod.ndjson")
                    zip_logs([lp0, lp], "C20", outp)
                    for vi in run_prod_monitor(ctx, outp)["viol"][:50]:
                        ctx.violations.append(dict(cls=vi["cls"], detail=vi["d"], line=vi["l"], ops=None, cfg=r["cfg"], family="replay", cell="replay"))
            elif os.path.exists(lp) and p.returncode == 0:
                for t in ("ArkTrace.tla", "ArkWorld.tla"):
                    shutil.copy(os.path.join(SPEC, t), ctx.work)
                for vi in run_monitor(ctx, lp)["viol"]:
                    ctx.violations.append(dict(cls=vi["cls"], detail=vi["d"], line=vi["l"], ops=None, cfg=r["cfg"], family="replay", cell="replay"))
        own = [v for v in ctx.violations if v["cls"].startswith(pid + ".")]
        print(json.dumps([dict(cls=v["cls"], detail=v["detail"]) for v in ctx.violations][:20], indent=1))
        if own:
            print("VIOLATION property=%s replay=%s" % (pid, path))
            return 1
        return 0
    except Inconclusive as e:
        print("INCONCLUSIVE property=%s: %s" % (pid, e))
        return 2
    finally:
        ctx.cleanup()


def zip_logs(paths, mode, out):
    """Zip the logs of two executions of the same histories line by line into a product log.
    Purely structural; all comparisons are made by ArkProd.tla."""
    n = 0
    with open(paths[0]) as fa, open(paths[1]) as fb, open(out, "w") as fo:
        for la, lb in zip(fa, fb):
            fo.write('{"k":"prod","mode":"%s","a":%s,"b":%s}\n' % (mode, la.strip(), lb.strip()))
            n += 1
        rest = [fa.readline(), fb.readline()]
    if any(r for r in rest):
        return n, False      # different numbers of lines: the executions diverged structurally
    return n, True


def atomic_install(src, dst, text=None):
    tmp = "%s.tmp%d.%d" % (dst, os.getpid(), threading.get_ident())
    if src:
        shutil.copy(src, tmp)
    else:
        open(tmp, "w").write(text)
    os.replace(tmp, dst)


def run_prod_monitor(ctx, logpath, timeout=900):
    d = os.path.dirname(logpath)
    cfgp = os.path.join(d, "prod.cfg")
    # several product monitors run in parallel in the same directory: install the files atomically
    atomic_install(os.path.join(SPEC, "ArkProd.tla"), os.path.join(d, "ArkProd.tla"))
    atomic_install(None, cfgp, "SPECIFICATION PSpec\nINVARIANT Done\nCHECK_DEADLOCK FALSE\n")
    env = dict(os.environ, TRACE_FILE=logpath, JAVA_TOOL_OPTIONS="-XX:ParallelGCThreads=1 -XX:CICompilerCount=2 -Xms1g -Xmx6g -Xss64m")
    p, dt = run(["tlc", "-workers", "1", "-metadir", logpath + ".meta", "-config", cfgp, os.path.join(d, "ArkProd.tla")], timeout, env=env, cwd=d)
    shutil.rmtree(logpath + ".meta", ignore_errors=True)
    m = re.search(r'^"VERDICT (.*)"$', p.stdout, re.M)
    if not m or "Model checking completed. No error has been found" not in p.stdout:
        raise Inconclusive("product monitor did not produce a verdict for %s:\n%s" % (logpath, p.stdout[-3000:]))
    return json.loads(json.loads('"' + m.group(1) + '"'))


def product_check(ctx, mode, variants, sources, label, validate_each=True, cover=None):
    """variants: list of (name, binary, cfg-overrides, env); sources: list of ("seq", seqfile, cfg) or ("drive", n, len, cfg).
    Every source is executed by every variant; each log is validated by ArkTrace, and the logs of one source are
    zipped (first variant vs the others) and validated by ArkProd."""
    d = os.path.join(ctx.work, "prod-" + label)
    os.makedirs(d, exist_ok=True)
    for t in glob.glob(os.path.join(SPEC, "*.tla")):
        shutil.copy(t, d)
    jobs = []
    for si, src in enumerate(sources):
        for vi, (vname, binp, over, env) in enumerate(variants):
            cfg = dict(src[-1])
            cfg.update(over)
            lp = os.path.join(d, "log-%d-%s.ndjson" % (si, vname))
            if src[0] == "seq":
                cmd = [binp, "-in", src[1], "-out", lp, "-cfg", json.dumps(cfg), "-keep", str(src[2])]
            else:
                cmd = [binp, "-drive", str(src[1]), "-len", str(src[2]), "-out", lp, "-cfg", json.dumps(cfg)]
            jobs.append((si, vname, cmd, cfg, lp, env))

    def one(j):
        si, vname, cmd, cfg, lp, env = j
        p, dt = run(cmd, 900, env=dict(os.environ, **(env or {})))
        if p.returncode != 0:
            if any(m in p.stdout for m in CRASH_MARKS):
                ctx.violations.append(dict(cls=ctx.pid + ".crash", detail=p.stdout[:200], line=0, ops=None, cfg=cfg, family=label, cell=vname, cmd=cmd))
                return None
            raise Inconclusive("executor failed (harness defect):\n" + p.stdout[-2000:])
        return json.loads(p.stdout.strip().splitlines()[-1])
    with ThreadPoolExecutor(max_workers=NCPU) as ex:
        stats = list(ex.map(one, jobs))
    if any(s is None for s in stats):
        return
    if cover is not None:
        for st in stats:
            for k, v in (st.get("cover") or {}).items():
                cover[k] = cover.get(k, 0) + v
    if validate_each:
        with ThreadPoolExecutor(max_workers=MON_PAR) as ex:
            verdicts = list(ex.map(lambda j: run_monitor(ctx, j[4]), jobs))
        for j, st, v in zip(jobs, stats, verdicts):
            ctx.stats["traces"] += v["seqs"]
            ctx.stats["events"] += v["lines"]
            for vi in v["viol"]:
                ctx.violations.append(dict(cls=vi["cls"], detail=vi["d"], line=vi["l"], ops=load_seq_of_log(j[4], vi["seq"]), cfg=j[3],
                                           family=label, cell=j[1]))
    prods = []
    for si, src in enumerate(sources):
        paths = [j[4] for j in jobs if j[0] == si]
        for oi, other in enumerate(paths[1:], 1):
            out = os.path.join(d, "prod-%d-%d.ndjson" % (si, oi))
            n, same = zip_logs([paths[0], other], mode, out)
            if not same:
                ctx.violations.append(dict(cls="%s.shape" % mode, detail="executions of the same history produced logs of different length",
                                           line=0, ops=None, cfg=src[-1], family=label, cell="product-%d-%s" % (si, variants[oi][0])))
            prods.append((si, out, n, variants[oi][0]))
    with ThreadPoolExecutor(max_workers=MON_PAR) as ex:
        pv = list(ex.map(lambda pr: run_prod_monitor(ctx, pr[1]), prods))
    for (si, out, n, vname), v in zip(prods, pv):
        ctx.stats["events"] += v["lines"]
        ctx.stats.setdefault("product_lines", 0)
        ctx.stats["product_lines"] += v["lines"]
        first = [j[4] for j in jobs if j[0] == si][0]
        resets = []
        if v["viol"]:
            with open(first) as f:
                for k, line in enumerate(f, 1):
                    if line.startswith('{"k":"reset"'):
                        resets.append(k)
        import bisect
        for vi in v["viol"][:2000]:
            # map the product line back to the sequence: number of resets in the first log up to that line
            seqno = bisect.bisect_right(resets, vi["l"])
            ctx.violations.append(dict(cls=vi["cls"], detail=vi["d"], line=vi["l"], ops=load_seq_of_log(first, seqno),
                                       cfg=sources[si][-1], family=label, cell="product-%d-%s" % (si, vname)))
    ctx.stats["cells"].append(dict(family=label, variants=[v[0] for v in variants], sources=len(sources),
                                   product_lines=sum(p[2] for p in prods)))
    if not ctx.stats["samples"] and prods:
        with open(prods[0][1]) as f:
            ctx.stats["samples"].append(dict(family=label, product_head=[json.loads(next(f)) for _ in range(2)]))


def bfs_sources(g, want, cfg):
    """Sources of a product drawn from the transitions of a BFS family: about `want` sequences in all, in seed-distinct
    samples of at most ~5000 sequences each (small logs, monitors in parallel)."""
    n = max(1, g["nseq"])
    want = min(want, n)
    k = max(1, -(-want // 5000))
    per = max(1, min(1000, int(1000 * want / n / k)))
    return [("seq", g["seqs"], per, dict(cfg, seed=cfg.get("seed", 1) + 7919 * i)) for i in range(k)]


def driven_sources(ctx, binp, names, count, cell, extra):
    """Histories drawn by the seeded driver on the real world (once), to be replayed by every variant of a product.
    Sources hold at most ~60 histories each, so that the logs of a product stay small and the monitors run in parallel."""
    out = []
    d = os.path.join(ctx.work, "driven")
    os.makedirs(d, exist_ok=True)
    jobs = []
    for k, name in enumerate(names):
        dr = DRIVES[name]
        cnt = count[name] if isinstance(count, dict) else count
        # (the coverage-guided driver balances its targets within one process: keep its histories together)
        chunks = max(1, -(-cnt // (240 if dr.get("extra", {}).get("grid", 0) >= 50 else 60)))
        for ch in range(chunks):
            cfg = dict(CELLS[cell], comps=dr["comps"], probes=2, seed=ctx.seed * 31 + k + 977 * ch, reuse=True, maxent=dr["maxent"])
            cfg.update(dr.get("extra", {}))
            cfg.update(extra)
            lp = os.path.join(d, "gen-%s-%s-%d.ndjson" % (name, cell, ch))
            jobs.append((lp, cfg, max(1, cnt // chunks), dr[ctx.tier]["len"]))

    def one(j):
        lp, cfg, n, ln = j
        cmd = [binp, "-drive", str(n), "-len", str(ln), "-out", lp, "-cfg", json.dumps(cfg)]
        p, dt = run(cmd, 900)
        if p.returncode != 0 and any(m in p.stdout for m in CRASH_MARKS):
            # a Go runtime crash while the driver runs valid operations on the real world is behaviour of the code under
            # test: confirmed by an identical second run, then reported for the property checked
            p2, dt2 = run(cmd, 900)
            if p2.returncode != 0 and any(m in p2.stdout for m in CRASH_MARKS):
                ctx.violations.append(dict(cls=ctx.pid + ".crash", detail=p2.stdout[:300], line=0, ops=None, cfg=cfg, family="driven", cell=cell, cmd=cmd))
                return None
            p = p2
        if p.returncode != 0:
            raise Inconclusive("driver failed:\n" + p.stdout[-1500:])
        if os.path.exists(lp) and not os.environ.get("VERIF_KEEP"):
            os.remove(lp)      # only the histories (<log>.seqs) are needed: every variant replays them
        return ("seq", lp + ".seqs", 1000, cfg)
    with ThreadPoolExecutor(max_workers=NCPU) as ex:
        out = list(ex.map(one, jobs))
    return [o for o in out if o is not None]


def check_c12(ctx):
    """Determinism: the same histories executed twice in one process-configuration and in separate processes with different
    environments (GOGC, GOMAXPROCS, map seeds are per process anyway) must agree on everything logged."""
    quick = ctx.tier == "quick"
    b = build_executor(ctx)
    gens = []
    for fam in (["rel", "cache"] if quick else ["rel", "cache", "obs", "batch"]):
        g = run_generator(ctx, fam, 600)
        if g["design_violation"]:
            raise Inconclusive("design check of %s fails (%s); run the property's own check" % (fam, g["design_violation"]))
        gens.append((fam, g))
    variants = variants_for(ctx, "C12")
    sources = []
    for fam, g in gens:
        sources += bfs_sources(g, 6000 if quick else 40000, dict(CELLS["typed1"], comps=FAMILIES[fam]["exec"]["comps"], probes=4, seed=ctx.seed, stats=True))
        sources += bfs_sources(g, 6000 if quick else 40000, dict(CELLS["unsafe2"], comps=FAMILIES[fam]["exec"]["comps"], probes=4, seed=ctx.seed + 1, stats=True))
    sources += driven_sources(ctx, b, ["wide", "rel2", "obs", "lock", "reset"], 20 if quick else 300, "typed11", dict(stats=True))
    product_check(ctx, "C12", variants, sources, "c12")
    return finish(ctx, "product traces of 3 processes")


def check_c20(ctx):
    """Build configurations: the same histories (<= 64 component types) through the four builds; results and
    panic / no panic per call must be equal (messages may differ)."""
    quick = ctx.tier == "quick"
    bins = [("plain", build_executor(ctx)), ("tiny", build_executor(ctx, "verif,ark_tiny", "arkexec_tiny")),
            ("debug", build_executor(ctx, "verif,ark_debug", "arkexec_debug")),
            ("tinydebug", build_executor(ctx, "verif,ark_tiny,ark_debug", "arkexec_tinydebug"))]
    variants = [(n, b, {}, {}) for n, b in bins]
    sources = []
    for fam in (["core", "rel"] if quick else ["core", "rel", "cache", "batch", "lock"]):
        g = run_generator(ctx, fam, 600)
        if g["design_violation"]:
            raise Inconclusive("design check of %s fails (%s); run the property's own check" % (fam, g["design_violation"]))
        for cell in ["typed1", "unsafe2"]:
            sources += bfs_sources(g, 1500 if quick else 25000, dict(CELLS[cell], comps=FAMILIES[fam]["exec"]["comps"], probes=3, misuse=6, qmis=True,
                                                                      seed=ctx.seed, stats=True))
    sources += driven_sources(ctx, bins[0][1], ["wide", "rel2", "obs", "lock", "reset", "arity"], 8 if quick else 200, "typed11",
                              dict(stats=True, misuse=8, qmis=True))
    sources += driven_sources(ctx, bins[0][1], ["wide", "lock"], 8 if quick else 200, "unsafe1", dict(misuse=8, qmis=True))
    product_check(ctx, "C20", variants, sources, "c20")
    cursor_stage(ctx, bins, product=True)
    # registries up to 64 types (the tiny limit) behave the same in every build
    d = os.path.join(ctx.work, "prod-c20reg")
    os.makedirs(d, exist_ok=True)
    shutil.copy(os.path.join(SPEC, "ArkProd.tla"), d)
    logs = []
    for name, b in bins:
        lp = os.path.join(d, "reg-%s.ndjson" % name)
        cfg = dict(path="unsafe", caps=[4, 2], comps=[], seed=ctx.seed, regmax=64)
        p, dt = run([b, "-registry", "2" if quick else "10", "-len", "40", "-out", lp, "-cfg", json.dumps(cfg)], 600)
        if p.returncode != 0:
            raise Inconclusive("registry run failed:\n" + p.stdout[-1500:])
        logs.append(lp)
    for i, other in enumerate(logs[1:], 1):
        out = os.path.join(d, "prod-reg-%d.ndjson" % i)
        n, same = zip_logs([logs[0], other], "C20", out)
        v = run_prod_monitor(ctx, out)
        ctx.stats["events"] += v["lines"]
        if not same:
            ctx.violations.append(dict(cls="C20.shape", detail="registry logs differ in length", line=0, ops=None, cfg={}, family="c20reg", cell=bins[i][0]))
        for vi in v["viol"]:
            ctx.violations.append(dict(cls=vi["cls"], detail=vi["d"], line=vi["l"], ops=None, cfg=dict(regmax=64), family="c20reg", cell=bins[i][0]))
    return finish(ctx, "product traces of the four build configurations")


MAP_METHODS = ["NewEntity", "NewEntityFn", "NewBatch", "NewBatchFn", "Get", "HasAll", "Add", "AddFn", "Set", "AddBatch", "AddBatchFn", "Remove",
               "RemoveBatch", "GetRelation", "SetRelations", "SetRelationsBatch"]
EX_METHODS = ["Add", "AddFn", "Remove", "Exchange", "ExchangeFn", "AddBatch", "AddBatchFn", "RemoveBatch", "ExchangeBatch", "ExchangeBatchFn"]
FILTER_METHODS = ["Query", "QueryRel", "Batch", "BatchRel", "Register", "Unregister", "Relations"]
# every generated API variant, down to the method (harness/arkx/cover.go counts the calls)
REQUIRED_API = (["Map"] + ["Map%d" % i for i in range(1, 13)] + ["Exchange%d" % i for i in range(1, 9)] + ["Filter%d" % i for i in range(0, 9)]
                + ["Observer", "Observer1", "Observer2", "Observer3", "Observer4"]
                + ["Map.%s" % m for m in MAP_METHODS if m != "NewBatch"]
                + ["Map%d.%s" % (i, m) for i in range(1, 13) for m in MAP_METHODS]
                + ["Exchange%d.%s" % (i, m) for i in range(1, 9) for m in EX_METHODS]
                + ["Filter%d.%s" % (i, m) for i in range(1, 9) for m in FILTER_METHODS])


def check_c14(ctx):
    """Typed generic API vs ID-based API at every arity: the same histories through the typed path (type parameter
    order permuted, relations by index / by type) and through the ID-based path; each execution is validated against
    layer A (values encode the component, so a pointer handed out in the wrong order is a wrong value), the pair is
    compared by ArkProd.  The run fails as inconclusive if a generated API variant was not exercised."""
    quick = ctx.tier == "quick"
    b = build_executor(ctx)
    variants = [("typed", b, dict(CELLS["typed11"]), {}), ("unsafe", b, dict(CELLS["unsafe1"], unbatchnew=True), {}),
                ("typedidx", b, dict(CELLS["typed1"], perm=True), {}), ("exchange", b, dict(CELLS["exch8"]), {}),
                ("mapt", b, dict(CELLS["mapt1"]), {})]
    sources = []
    for fam in (["core", "rel", "batch"] if quick else ["core", "rel", "batch", "cache", "obs", "lock"]):
        g = run_generator(ctx, fam, 600)
        if g["design_violation"]:
            raise Inconclusive("design check of %s fails (%s); run the property's own check" % (fam, g["design_violation"]))
        sources += bfs_sources(g, 2500 if quick else 30000, dict(comps=FAMILIES[fam]["exec"]["comps"], probes=4, seed=ctx.seed, typedobs=True))
    counts = dict(arity=160, wide=20, rel2=20, obs=20) if quick else dict(arity=1200, wide=150, rel2=150, obs=150)
    sources += driven_sources(ctx, b, ["arity", "wide", "rel2", "obs"], counts, "typed11", dict(typedobs=True))
    for s_ in sources:
        for k in ("path", "caps", "relst", "perm", "fill", "mapt"):
            s_[-1].pop(k, None)
    cover = {}
    product_check(ctx, "C14", variants, sources, "c14", cover=cover)
    missing = [a for a in REQUIRED_API if cover.get(a, 0) == 0]
    for attempt in (1, 2, 3):
        if not missing:
            break
        # top up: more coverage-guided histories (another driver seed), concentrated on the arities of the variants
        # that were not called yet, until every generated variant was called
        ar = sorted({int(re.search(r"(\d+)\.", a + ".").group(1)) if re.search(r"\d", a.split(".")[0]) else 1 for a in missing})
        extra = driven_sources(ctx, b, ["arity"], dict(arity=120), "typed11",
                               dict(typedobs=True, seed=ctx.seed * 31 + 5000 * attempt, gridarity=ar))
        for s_ in extra:
            for k in ("path", "caps", "relst", "perm", "fill", "mapt"):
                s_[-1].pop(k, None)
        product_check(ctx, "C14", variants, extra, "c14-topup%d" % attempt, cover=cover)
        missing = [a for a in REQUIRED_API if cover.get(a, 0) == 0]
    ctx.stats["api_cover"] = cover
    # every call sequence on Query1..8 and on the ID-based query with the same component list (ArkCursor)
    cursor_stage(ctx, [("plain", b)])
    if missing:
        raise Inconclusive("generated API variants never exercised: %s" % ", ".join(missing))
    return finish(ctx, "product traces typed vs ID-based")


def check_c13(ctx):
    """Concurrent queries: ArkConc.tla (vector-clock happens-before model of FilterN.Query and the world lock) is
    checked for NoRace / distinct bits / all released / termination; the same scenarios run on the real code built
    with the Go race detector, every goroutine's results are validated by the monitor."""
    quick = ctx.tier == "quick"
    for g, bits in ([(2, 2), (3, 3)] if quick else [(2, 2), (3, 3), (3, 2), (4, 4)]):
        gen, dist, bad = run_tlc_model(ctx, "ArkConc", "mc_G == 1..%d" % g,
                                       "SPECIFICATION Spec\nCONSTANTS\n  G <- mc_G\n  MaxBits = %d\n  HintUnderMutex = TRUE\n"
                                       "INVARIANTS NoRace HeldBitsDistinct BitsConsistent AllReleased\nPROPERTIES Terminates\nCHECK_DEADLOCK FALSE\n" % bits,
                                       "conc-%d-%d" % (g, bits))
        if bad:
            ctx.stats["design_findings"].append(dict(family="conc", invariant=bad))
    hdir = HARNESS
    out = os.path.join(ctx.work, "arkexec_race")
    if os.path.realpath(REPO) != "/repo":
        build_executor(ctx)
        hdir = os.path.join(ctx.work, "harness")
    shutil.copy(os.path.join(REPO, "go.sum"), os.path.join(hdir, "go.sum"))
    p, dt = run(["go", "build", "-race", "-tags", "verif", "-o", out, "./cmd/arkexec"], 1200, env=GOENV, cwd=hdir)
    if p.returncode != 0:
        raise Inconclusive("race build failed:\n" + p.stdout[-2000:])
    d = os.path.join(ctx.work, "conc")
    os.makedirs(d, exist_ok=True)
    jobs = []
    runs = 6 if quick else 60
    for ci, (cell, comps, gor) in enumerate([("typed1", ["A", "B", "R"], 8), ("typed11", ["A", "R", "S"], 16), ("unsafe2", ["A", "B", "R"], 4),
                                              ("typed53", ["A", "B", "R"], 62)]):
        cfg = dict(CELLS[cell], comps=comps, seed=ctx.seed * 1000 + ci, maxent=40, reuse=True)
        lp = os.path.join(d, "log-%s.ndjson" % cell)
        jobs.append(([out, "-conc", str(runs), "-len", str(gor), "-out", lp, "-cfg", json.dumps(cfg)], cfg, lp, "%s/%d goroutines" % (cell, gor)))
    races = []

    def one(j):
        cmd, cfg, lp, cell = j
        env = dict(os.environ, GORACE="halt_on_error=0 exitcode=0")
        p, dt = run(cmd, 1200, env=env)
        if p.returncode != 0:
            raise Inconclusive("concurrent run failed (%s):\n%s\n...\n%s" % (" ".join(cmd), p.stdout[:3000], p.stdout[-1500:]))
        blocks = re.findall(r"WARNING: DATA RACE.*?={18}", p.stdout, re.S)
        for b in blocks:
            if "github.com/mlange-42/ark/ecs." in b:
                races.append((cell, cfg, cmd, b))
        last = [l for l in p.stdout.splitlines() if l.startswith('{"read"')]
        return json.loads(last[-1])
    with ThreadPoolExecutor(max_workers=4) as ex:
        stats = list(ex.map(one, jobs))
    for cell, cfg, cmd, b in races[:5]:
        frames = [l.strip() for l in b.splitlines() if "mlange-42/ark/ecs." in l]
        ctx.violations.append(dict(cls="C13.race", detail=" | ".join(frames[:4])[:400], line=0, ops=None, cfg=cfg, family="conc", cell=cell, cmd=cmd))
    for (cmd, cfg, lp, cell), st in zip(jobs, stats):
        shutil.copy(os.path.join(SPEC, "ArkTrace.tla"), d)
        shutil.copy(os.path.join(SPEC, "ArkWorld.tla"), d)
    with ThreadPoolExecutor(max_workers=MON_PAR) as ex:
        verdicts = list(ex.map(lambda j: run_monitor(ctx, j[2]), jobs))
    for (cmd, cfg, lp, cell), st, v in zip(jobs, stats, verdicts):
        ctx.stats["traces"] += v["seqs"]
        ctx.stats["events"] += v["lines"]
        for vi in v["viol"]:
            ctx.violations.append(dict(cls=vi["cls"], detail=vi["d"], line=vi["l"], ops=load_seq_of_log(lp, vi["seq"]), cfg=cfg, family="conc", cell=cell, cmd=cmd))
        ctx.stats["cells"].append(dict(family="conc", cell=cell, cfg=cfg, sequences=st["executed"], events=st["events"]))
        if not ctx.stats["samples"]:
            with open(lp) as f:
                ctx.stats["samples"].append(dict(family="conc", cell=cell, log_head=[json.loads(next(f)) for _ in range(2)]))
    ctx.stats["race_reports_in_ecs"] = len(races)
    return finish(ctx, "race detector observes the real executions; the specification supplies scenarios, HB argument and result oracle")


def check_c18(ctx):
    quick = ctx.tier == "quick"
    # design: registry + toTypes word arithmetic at the capacity boundary (scaled constants)
    for mt, ws in ([(4, 2)] if quick else [(4, 2), (6, 3), (5, 2)]):
        types = ", ".join('"t%d"' % i for i in range(mt + 1))
        gen, dist, bad = run_tlc_model(ctx, "ArkReg", "mc_Types == {%s}" % types,
                                       "SPECIFICATION Spec\nCONSTANTS\n  Types <- mc_Types\n  MaxTypes = %d\n  WordSize = %d\n  FixToTypes = TRUE\n"
                                       "INVARIANTS IdsOK ToTypesOK CapacityUsable\nPROPERTIES Stable\nCHECK_DEADLOCK FALSE\n" % (mt, ws),
                                       "registry-%d-%d" % (mt, ws))
        if bad:
            ctx.stats["design_findings"].append(dict(family="registry", invariant=bad))
    # conformance at the real constants: 256 types (64 with ark_tiny), registry histories through the monitor
    bins = {"": build_executor(ctx), "ark_tiny": build_executor(ctx, "verif,ark_tiny", "arkexec_tiny")}
    d = os.path.join(ctx.work, "registry")
    os.makedirs(d, exist_ok=True)
    jobs = []
    runs = 2 if quick else 12
    for tag, b in bins.items():
        for ci, caps in enumerate([[1], [4, 2], [1024]]):
            # (typed: mappers, a filter and an exchange created before the registry is filled are used throughout)
            cfg = dict(path="unsafe" if ci == 2 else "typed", caps=caps, comps=[], seed=ctx.seed * 100 + ci)
            lp = os.path.join(d, "log-%s-%d.ndjson" % (tag or "default", ci))
            jobs.append(([b, "-registry", str(runs), "-len", "80", "-out", lp, "-cfg", json.dumps(cfg)], cfg, lp,
                         "%s/caps%s" % (tag or "default", caps)))
    exec_logs_and_monitor(ctx, jobs, "registry")
    # resources inside world histories (layer A: w.res): Add / Remove / writes through Get / Reset / Load
    run_plan(ctx, PLANS["C18"])
    return finish(ctx, "registry model with scaled constants; conformance with the real limits")


CHECKS = {"C18": check_c18, "C12": check_c12, "C20": check_c20, "C14": check_c14, "C13": check_c13}


def main(argv):
    ap = argparse.ArgumentParser()
    ap.add_argument("pid")
    ap.add_argument("--tier", default=os.environ.get("VERIF_TIER", "quick"))
    ap.add_argument("--seed", type=int, default=int(os.environ.get("VERIF_SEED", "1")))
    ap.add_argument("--replay")
    a = ap.parse_args(argv)
    if a.replay:
        return do_replay(a.replay, a.seed)
    ctx = Ctx(a.pid, a.tier, a.seed)
    try:
        fn = CHECKS.get(a.pid, check_generic)
        rc = fn(ctx)
        print("check %s tier=%s seed=%d: states=%d transitions=%d traces=%d events=%d violations(all classes)=%d wall=%.0fs rc=%d" % (
            a.pid, a.tier, a.seed, ctx.stats["states"], ctx.stats["transitions"], ctx.stats["traces"], ctx.stats["events"],
            len(ctx.violations), time.time() - ctx.t0, rc))
        return rc
    except Inconclusive as e:
        # what an earlier stage established on the real code stands, whatever a later stage could not conclude
        if any(v["cls"].startswith(a.pid + ".") for v in ctx.violations):
            print("(a later stage was inconclusive: %s)" % str(e)[:300])
            try:
                return finish(ctx, "a later stage was inconclusive")
            except Inconclusive:
                pass
        print("INCONCLUSIVE property=%s: %s" % (a.pid, e))
        return 2
    except Exception:
        # a defect of the machinery itself is never a verdict about the code
        import traceback
        traceback.print_exc()
        print("INCONCLUSIVE property=%s: internal error of the checker" % a.pid)
        return 2
    finally:
        ctx.cleanup()
