#!/usr/bin/env python3
"""Writes /verif/MANIFEST.json from the table below (kept next to the checks so they stay in step)."""
import json, os, subprocess

VERIF = os.path.abspath(os.path.join(os.path.dirname(os.path.abspath(__file__)), ".."))

TECH = "TLA+ spec (layers A/B) model-checked by TLC; TLC-generated behaviours replayed on the real ecs.World; recorded traces validated by the TLA+ monitor"

CLAIMED = {
    "C01": ("Layer-B storage model (pool, tables with swap-remove, archetypes by mask, capacity growth) refines the layer-A "
            "component store in every reachable state of the bounded families core/rel; every transition of those state graphs "
            "is replayed on the real world through several API paths and each logged event is validated by the monitor "
            "(component sets, values, other entities untouched).", "7 C01"),
    "C02": ("Pool free-list invariants and handle uniqueness checked by TLC on layer B; on every replayed event the monitor "
            "checks Alive() of every handle ever issued (and of the handles issued before the last Reset), uniqueness of returned "
            "handles and Stats().Entities.Used; ArkPool.tla: an inductive invariant of the entity pool checked with Apalache "
            "(handle freshness and exact liveness for histories of any length).", "7 C02"),
    "C03": ("Query walk of layer B equals layer A's Select in every reachable state (QueriesExact); the executor runs a "
            "seed-sampled battery of filters (with/without/exclusive/relation targets, typed and ID-based) after every replayed "
            "sequence; visited bag, yielded data, pointer identity, Count and EntityAt are validated by the monitor.", "7 C03"),
    "C04": ("Relation index invariants (RelIndexOK), totality of valid removals (NoPanic) and refinement of detach semantics "
            "checked by TLC on the rel family; every transition replayed and all entities' targets compared after each event.", "7 C04"),
    "C05": ("Cache coherence invariant (CacheOK) on layer B over register/unregister/table creation/freeing/recycling/Shrink/"
            "Reset; registered filters and identical unregistered twins are probed on the real world after every replayed "
            "sequence and compared with each other and with Select.", "7 C05"),
    "C06": ("In layer A a batch operation is the fold of the single-entity operation over the selection taken in the pre-state; "
            "TLC checks that layer B's table-wise moves (exchangeTable, moveEntities, CopyToEnd) refine it with several source "
            "tables, pre-filled destinations, cached and uncached filters.  Replays compare the world after every batch call with "
            "the fold, require the callback exactly once per changed entity (never for others) and that values written through "
            "the callback's pointers land in that entity; value and callback forms, Map and Exchange paths.", "7 C06"),
    "C07": ("Layer A locks the world exactly while a query is open or a callback runs; seeded random histories on the real "
            "world keep up to 6 (and up to 62) queries open across operations, advance and close them in arbitrary order, "
            "attempt every structural operation while locked (must panic, nothing may change), use Set / events / filter "
            "(un)registration / nested queries while locked (must work), close finished queries again, and the monitor "
            "compares IsLocked with the specification after every event.  ArkCursorMC (LockExact, ClosedIsFinal) and every call "
            "sequence on every query kind; registration of a never-seen component type on a locked world must panic and leave "
            "the registry (type count, relation flags) as it was.", "7 C07"),
    "C08": ("Fires(observer, event, changed, composition) is transcribed from the documentation into layer A; every replayed "
            "operation's callbacks (observer, entity) are compared as a set with the specification's expectation: missing, "
            "spurious and repeated callbacks, for random sets of up to 5 simultaneously registered observers drawn from the "
            "whole space of specifications (event type x observed x with x without/exclusive), all operation kinds incl. batch "
            "forms and custom events.", "7 C08"),
    "C09": ("Layer A splits every emitting operation into pre-callbacks / change / post-callbacks; each recorded callback "
            "carries a snapshot of the whole world taken inside the callback (through a query and the mapper), the number of "
            "times the entity is yielded by a query, and IsLocked; the monitor requires the pre-state for removal events, the "
            "post-state otherwise (whole batch), the documented lock state, the entity alive and seen exactly once.", "7 C09"),
    "C10": ("Every layer-A action is guarded: precondition false => panic and nothing changes.  After each replayed history "
            "the executor attempts a seed-sampled (thorough: complete) battery of misuse calls derived from the current state "
            "(dead / recycled / zero handles in every checked single-entity operation, duplicate add, remove of a missing "
            "component, empty component lists, omitted or dead relation targets, batch forms), also in the middle of driven "
            "histories (what a rejected call leaves in hidden state shows in the valid operations that follow), and every "
            "structural method of every arity on a locked world; the monitor requires the panic and an identical projection, "
            "entity count and lock state afterwards.", "7 C10"),
    "C16": ("Reset of layer A is the initial world (registries kept).  Histories with Reset at generator/driver-chosen points "
            "continue to be validated against the specification; filter and observer objects registered before are registered "
            "again after Reset; resources (layer A: w.res, family res) are gone after Reset; a disagreement is attributed to C16 "
            "iff the history after the Reset is clean on a fresh world (differential).", "7 C16"),
    "C17": ("Every free-list shape of a small pool (TLC, family dump) and long recycle histories (driver): dump (through JSON), "
            "load into a fresh or a used-and-reset second world, compare Alive of every handle ever issued, and the handles "
            "the next creations return in both worlds; handles travel through the JSON and binary codecs; binary input of "
            "every length 0..16 except 8 - as a slice of its own and as a window into a larger buffer - must be rejected with "
            "an error (not accepted, not a panic).", "7 C17"),
    "C19": ("The monitor checks the algebra of every recorded Stats() record against the specification's world (used = alive "
            "= sum of archetype and table sizes, per-composition counts, total = used + recycled <= capacity, distinct "
            "archetypes, size <= capacity, memory products and sums, filter / observer / lock figures) and its equality with "
            "the statistics of a twin world that replays the same history and is asked once.", "7 C19"),
    "C11": ("Layer B models the memory beyond each table's length (SpareCellsZero after swap-remove, both reset strategies, "
            "growth, shrinking, recycling), so a component added without a value reads zero.  Conformance: creation / addition / "
            "batch forms without initial value read back immediately; components holding a pointer, slice, map and string "
            "(rebuilt from fresh heap objects at every write) must decode to the value last written after any number of moves, "
            "growth, Shrink, Reset, under continuous garbage collection; after forced collections every heap object not "
            "referenced from a component of an alive entity must have been finalized and no referenced one may be.", "7 C11"),
    "C12": ("Layer B is a deterministic state machine (every order-defining container is a sequence).  Product traces: the same "
            "TLC-generated and driver-generated histories are executed twice with the same process settings and in further "
            "processes with different GOGC / GOMAXPROCS (fresh map seeds), and with every loading world given its own deserialised "
            "copy of an entity dump (as worlds in different processes would have); ArkProd requires equality of everything logged: "
            "returned handles, full projections, iteration order of every probe query, callback order, statistics.", "7 C12"),
    "C13": ("ArkConc.tla: FilterN.Query and LockSafe / UnlockSafe as shared-memory steps with vector clocks; NoRace, distinct "
            "bits for overlapping queries, all bits released, termination, for all interleavings of 2-4 goroutines.  The same "
            "scenarios run on the real code built with the Go race detector (4-62 goroutines, shared and separate filters, "
            "registered or not, per-query relation targets, Count / EntityAt / early Close); reports inside package ecs are "
            "violations; every goroutine's result is validated against Select and the world must be unlocked at the end; every other "
            "run starts on a world with a past (nested queries, Reset).", "7 C13"),
    "C14": ("Layer A has one action per operation kind, whatever the API path, so equivalence is a product-trace property: "
            "the same histories run through Map1..12 / Exchange1..8 / Filter0..8 / Observer1..4 (type parameters permuted, "
            "relations by index and by type) and through the ID-based API; each run is validated against layer A (values "
            "encode the component, so mis-ordered pointers are wrong values; query pointers must equal mapper pointers), "
            "the pair is compared by creation ordinal by ArkProd; the check is inconclusive unless every generated variant "
            "was exercised.  Every call sequence (Next / Entity / Get / Close / Count / EntityAt) on Query1..8 and on the "
            "ID-based query with the same component list is compared with the cursor model ArkCursor.", "7 C14"),
    "C18": ("ArkReg.tla: registry and mask-to-component-list conversion with the word arithmetic kept and the constants scaled "
            "down so that 'all ids registered' is reachable: ids sequential, stable, injective; every mask over registered ids "
            "usable; over-limit and locked registration panic without consuming an id; resources a partial map.  Conformance at "
            "the real limits: 256 (64 with ark_tiny) types registered in random order with repeats, entities / filters / queries "
            "over the highest ids and every word boundary, validated event by event; resources inside world histories (layer A "
            "w.res, family res: Add / Remove / writes through Get / Reset / Load, typed, ID-based and free-function API).", "7 C18"),
    "C20": ("Product traces of the four builds (none, ark_tiny, ark_debug, both) over TLC- and driver-generated histories incl. "
            "misuse calls and a battery of query / mapper accessor misuse (Get / Entity before Next, after exhaustion, after "
            "Close; Next after Close; access to missing components; partial Set): equal results and panic / no panic per call.",
            "7 C20"),
    "C15": ("Shrink stutters on layer A while layer B's invariants keep holding after it and after every later step; "
            "capacity bounds and no-work-left after an unbounded Shrink are an action property.  Replays with Shrink at "
            "generator-chosen positions; a disagreement is attributed to C15 iff it disappears when the Shrink calls are "
            "removed from the same history (differential).", "7 C15"),
}

NOT_YET = {}
for i in range(1, 21):
    pid = "C%02d" % i
    if pid not in CLAIMED:
        NOT_YET[pid] = "check not built yet in this round (planned in DESIGN.md section 7); not claimed until its machinery exists"


def main():
    commits = subprocess.run(["git", "-C", "/repo", "log", "--format=%H %s"], capture_output=True, text=True).stdout.splitlines()
    hook_commits = [c.split()[0] for c in commits if " verif-hook:" in c or " verif: " in c]
    checks = []
    for pid, (text, ref) in sorted(CLAIMED.items()):
        checks.append(dict(
            property_id=pid,
            quick_cmd="bin/check %s --tier quick" % pid,
            thorough_cmd="bin/check %s --tier thorough" % pid,
            evidence_file="evidence/%s.json" % pid,
            replay_cmd_template="bin/check %s --replay {path}" % pid,
            engine="arkcheck",
            level_claimed=dict(category="model_checking", text=text, design_ref="DESIGN.md section " + ref),
            level_note="bounded model checking (constants in evidence) + conformance on sampled (quick) or all (thorough) "
                       "transitions; trusted: TLC, Go toolchain, the executor's projection of the world through the public API",
            technique=TECH,
        ))
    m = dict(
        version=1,
        setup_cmd="bin/setup",
        hooks=dict(guard="verif", enable="go build / go test -tags verif (harness/cmd/* built against /repo through a replace directive; the suite-trace stage runs the library's tests in a scratch copy with ecs.TraceSink installed)",
                   baseline_off_cmd="cd /repo && GOFLAGS=-mod=mod GOPROXY=off go test -vet=off -count=1 ./...",
                   source_commits=hook_commits, add_only=True),
        engines=[dict(name="arkcheck", path="lib/arkcheck.py", serves_properties=sorted(CLAIMED),
                      kind_free_text="TLC (design check + behaviour generator + trace monitor) and a Go executor/recorder")],
        checks=checks,
        not_applicable=[dict(property_id=k, reason=v) for k, v in sorted(NOT_YET.items())],
        notes="See DESIGN.md.  KNOWN_FINDINGS.json lists fixed and open findings.",
    )
    json.dump(m, open(os.path.join(VERIF, "MANIFEST.json"), "w"), indent=1)


if __name__ == "__main__":
    main()
