#!/usr/bin/env python3
"""Collects the outcome lines of bin/seedsweep runs (files given as arguments, later lines win) into
seeded/RESULTS.md and the `detected_by` field of each seeded/<id>/meta.json."""
import json, os, re, sys
VERIF = os.path.abspath(os.path.join(os.path.dirname(os.path.abspath(__file__)), ".."))
res = {}
for f in sys.argv[1:]:
    for line in open(f, errors="replace"):
        m = re.match(r"^(\S+) ->\s+(.*)$", line.strip())
        if not m:
            continue
        sid, rest = m.group(1), m.group(2)
        for cm in re.finditer(r"(C\d\d):rc=(\d)\[(.*?)\]", rest):
            classes = re.findall(r"class=([\w.\-]+)", cm.group(3))
            res.setdefault(sid, {})[cm.group(1)] = (int(cm.group(2)), classes)
rows = []
for sid in sorted(os.listdir(os.path.join(VERIF, "seeded"))):
    mp = os.path.join(VERIF, "seeded", sid, "meta.json")
    if not os.path.exists(mp):
        continue
    meta = json.load(open(mp))
    # results of earlier sweeps are kept (meta.json) unless a newer log has a line for the same check
    old = {}
    for d in meta.get("detected_by", []):
        m = re.match(r"^(C\d\d) quick \((.*)\)$", d)
        if m:
            old[m.group(1)] = (1, m.group(2).split(", "))
    for chk, rc in meta.get("swept", {}).items():
        old.setdefault(chk, (rc, []))
    old.update(res.get(sid, {}))
    det = []
    for chk, (rc, classes) in sorted(old.items()):
        if rc == 1:
            det.append("%s quick (%s)" % (chk, ", ".join(sorted(set(classes)))))
    meta["detected_by"] = det
    meta["swept"] = {chk: rc for chk, (rc, _) in old.items()}
    json.dump(meta, open(mp, "w"), indent=1)
    own = old.get(meta["breaks"])
    if own and own[0] == 1:
        cell = "; ".join(det)
    elif old:
        cell = "NOT DETECTED by %s" % meta["breaks"] + (" (detected by: %s)" % "; ".join(det) if det else "")
    else:
        cell = "not swept"
    rows.append((sid, meta["breaks"], meta["needs"], cell))
with open(os.path.join(VERIF, "seeded", "RESULTS.md"), "w") as f:
    f.write("# Seeded changes: outcome of `bin/seedsweep` (quick tier, VERIF_SEED=1)\n\n"
            "Each change was produced by an independent sub-agent from the text of one property only, confirmed with\n"
            "`bin/seedverify` (applies; suite passes under no tag / ark_debug / ark_tiny; demonstration fails with and passes\n"
            "without it) and then applied to a scratch worktree of /repo on which the quick check of the property it breaks was run.\n\n"
            "| seeded change | breaks | needs | detected by |\n|---|---|---|---|\n")
    for r in rows:
        f.write("| %s | %s | %s | %s |\n" % r)
    n = len(rows)
    d = len([r for r in rows if not r[3].startswith("NOT") and not r[3].startswith("not swept")])
    f.write("\n%d of %d seeded changes detected by the quick check of the property they break.\n" % (d, n))
# the same table, compact, into DESIGN.md between the SEEDTABLE markers
dp = os.path.join(VERIF, "DESIGN.md")
ds = open(dp).read()
a, b = ds.find("<!-- SEEDTABLE -->"), ds.find("<!-- /SEEDTABLE -->")
if a >= 0 and b > a:
    tab = "| seeded change | needs | caught by (quick tier, seed 1) |\n|---|---|---|\n"
    for sid, brk, needs, det in rows:
        tab += "| %s | %s | %s |\n" % (sid, needs[:150], det)
    tab += "\n%d of %d detected by the quick check of the property they break.\n" % (d, n)
    open(dp, "w").write(ds[:a] + "<!-- SEEDTABLE -->\n" + tab + ds[b:])
print(open(os.path.join(VERIF, "seeded", "RESULTS.md")).read()[-300:])
