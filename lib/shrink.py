#!/usr/bin/env python3
"""Minimise a failing operation history (delta debugging over the generated ops, with ordinal remapping).
usage: shrink.py <violations.json|replay.json> [index] [class-prefix]
"""
import copy, json, os, sys
sys.path.insert(0, os.path.dirname(os.path.abspath(__file__)))
import arkcheck as a


def creates(op):
    if op["op"] in ("New", "Copy"):
        return 1
    if op["op"] == "NewBatch":
        return op["n"]
    return 0


def remove_op(ops, i):
    """Remove ops[i]; entities it created disappear: later ops on them are dropped, targets become 0."""
    first = 1
    for o in ops[:i]:
        if o["op"] == "Reset":
            first = 1
        else:
            first += creates(o)
    k = creates(ops[i])
    out = copy.deepcopy(ops[:i])
    gone = set(range(first, first + k))
    live = True
    for o in copy.deepcopy(ops[i + 1:]):
        if o["op"] == "Reset":
            live = False
        if live and k:
            def m(x):
                if x in gone:
                    return None
                return x - k if x >= first + k else x
            if o.get("e", 0):
                e = m(o["e"])
                if e is None:
                    continue
                o["e"] = e
            for fld in ("tg",):
                if isinstance(o.get(fld), dict):
                    o[fld] = {c: (m(t) or 0) for c, t in o[fld].items()}
            if isinstance(o.get("flt"), dict):
                for fld in ("ft", "qt"):
                    if isinstance(o["flt"].get(fld), dict):
                        o["flt"][fld] = {c: (m(t) or 0) for c, t in o["flt"][fld].items()}
        out.append(o)
    return out


def fails(ctx, ops, cfg, prefix, tag):
    try:
        vs = a.exec_one(ctx, ops, cfg, tag)
    except a.Inconclusive as e:
        return False
    return any(v["cls"].startswith(prefix) for v in vs)


def main():
    data = json.load(open(sys.argv[1]))
    if isinstance(data, list):
        idx = int(sys.argv[2]) if len(sys.argv) > 2 else 0
        v = data[idx]
    else:
        v = data
    prefix = sys.argv[3] if len(sys.argv) > 3 else v["cls"]
    ops, cfg = v["ops"], v["cfg"]
    ctx = a.Ctx("SHR", "quick", 1)
    try:
        a.build_executor(ctx)
        n = 0
        if not fails(ctx, ops, cfg, prefix, "s0"):
            print("does not reproduce with everyop probes; class", prefix)
            return
        # shortest failing prefix
        lo, hi = 1, len(ops)
        while lo < hi:
            mid = (lo + hi) // 2
            n += 1
            if fails(ctx, ops[:mid], cfg, prefix, "s%d" % n):
                hi = mid
            else:
                lo = mid + 1
        ops = ops[:lo]
        changed = True
        while changed:
            changed = False
            i = len(ops) - 2
            while i >= 0:
                cand = remove_op(ops, i)
                n += 1
                if fails(ctx, cand, cfg, prefix, "s%d" % n):
                    ops = cand
                    changed = True
                i -= 1
        print("minimised to %d ops after %d runs; cfg=%s" % (len(ops), n, json.dumps(cfg)))
        for o in ops:
            print("  ", json.dumps({k: v for k, v in o.items() if v not in ([], {}, 0, "", False, None) or k == "e"}))
        vs = a.exec_one(ctx, ops, cfg, "final")
        for x in vs[:6]:
            print("  ->", x)
        json.dump(dict(v, ops=ops), open(os.path.join(a.WORKROOT, "shrunk.json"), "w"), indent=1)
    finally:
        ctx.cleanup()


if __name__ == "__main__":
    main()
