------------------------------- MODULE ArkStats -------------------------------
(***************************************************************************)
(* Layer B for World.Stats (world.go:278-333, archetype.go:317-414,        *)
(* table.go:303-324): the statistics object is reused and updated in place *)
(* between calls - table entries of an archetype are overwritten by        *)
(* position, truncated when tables were freed, appended when tables were   *)
(* created or recycled; new archetypes are appended.  C19: whatever        *)
(* happened between two calls (table creation, freeing, recycling in any   *)
(* order, size and capacity changes), the updated object equals the one a  *)
(* fresh computation yields.                                               *)
(***************************************************************************)
EXTENDS Integers, Sequences, FiniteSets, TLC

CONSTANTS MaxArch, MaxTab, MaxSize

VARIABLES archs,   \* Seq([tables: Seq([size, cap]) (active, in list order), free: Seq(cap)])
          so,      \* the reused statistics object: Seq([tables: Seq([size, cap]), capacity, size, free])
          fresh    \* TRUE right after a Stats call (when so must equal the fresh computation)

svars == <<archs, so, fresh>>

RECURSIVE Sum(_)
Sum(q) == IF q = <<>> THEN 0 ELSE Head(q) + Sum(Tail(q))

FreshArch(a) == [tables |-> a.tables,
                 capacity |-> Sum([i \in DOMAIN a.tables |-> a.tables[i].cap]) + Sum(a.free),
                 size |-> Sum([i \in DOMAIN a.tables |-> a.tables[i].size]),
                 free |-> Len(a.free)]
Fresh == [i \in DOMAIN archs |-> FreshArch(archs[i])]

Init == archs = <<[tables |-> <<[size |-> 0, cap |-> 1]>>, free |-> <<>>]>> /\ so = <<>> /\ fresh = FALSE

NumTabs(a) == Len(a.tables) + Len(a.free)

CreateArch ==
    /\ Len(archs) < MaxArch
    /\ archs' = Append(archs, [tables |-> <<>>, free |-> <<>>])
    /\ fresh' = FALSE /\ UNCHANGED so
CreateTable(i) ==      \* storage.createTable: recycle a free table if there is one, else a new one
    /\ archs' = [archs EXCEPT ![i] =
                    IF Len(@.free) > 0
                    THEN [tables |-> Append(@.tables, [size |-> 0, cap |-> @.free[Len(@.free)]]),
                          free |-> SubSeq(@.free, 1, Len(@.free) - 1)]
                    ELSE [@ EXCEPT !.tables = Append(@, [size |-> 0, cap |-> 1])]]
    /\ (Len(archs[i].free) > 0 \/ NumTabs(archs[i]) < MaxTab)
    /\ fresh' = FALSE /\ UNCHANGED so
FreeTable(i, k) ==     \* archetype.FreeTable: swap-remove from the active list, append to the free list
    /\ i > 1 /\ archs[i].tables[k].size = 0
    /\ LET t == archs[i].tables last == Len(t) IN
       archs' = [archs EXCEPT ![i] = [tables |-> SubSeq(IF k = last THEN t ELSE [t EXCEPT ![k] = t[last]], 1, last - 1),
                                      free |-> Append(@.free, t[k].cap)]]
    /\ fresh' = FALSE /\ UNCHANGED so
Resize(i, k, s, c) ==  \* entities added / removed, capacity grown / shrunk
    /\ s <= c
    /\ archs' = [archs EXCEPT ![i].tables[k] = [size |-> s, cap |-> c]]
    /\ fresh' = FALSE /\ UNCHANGED so

\* archetype.UpdateStats :370-414 for known archetypes, archetype.Stats :317-367 for new ones
UpdateArch(st, a) ==
    LET cntNew == Len(a.tables)
        kept == IF cntNew < Len(st.tables) THEN SubSeq(st.tables, 1, cntNew) ELSE st.tables
        cntOld == Len(kept)
        tabs == [k \in 1..cntNew |-> a.tables[k]]      \* positions < cntOld overwritten, the rest appended
    IN [tables |-> tabs,
        capacity |-> Sum([k \in 1..cntNew |-> tabs[k].cap]) + Sum(a.free),
        size |-> Sum([k \in 1..cntNew |-> tabs[k].size]),
        free |-> Len(a.free)]

Stats ==
    /\ so' = [i \in DOMAIN archs |-> IF i <= Len(so) THEN UpdateArch(so[i], archs[i]) ELSE FreshArch(archs[i])]
    /\ fresh' = TRUE /\ UNCHANGED archs

Next == \/ CreateArch \/ Stats
        \/ \E i \in DOMAIN archs : CreateTable(i)
        \/ \E i \in DOMAIN archs : \E k \in DOMAIN archs[i].tables : FreeTable(i, k)
        \/ \E i \in DOMAIN archs : \E k \in DOMAIN archs[i].tables : \E s \in 0..MaxSize : \E c \in {1, 2} : Resize(i, k, s, c)
Spec == Init /\ [][Next]_svars

\* C19: statistics updated incrementally equal those of a world that is asked once
IncrementalEqualsFresh == fresh => so = Fresh
\* C19 algebra on the object
Algebra == fresh => \A i \in DOMAIN so :
               /\ so[i].size = Sum([k \in DOMAIN so[i].tables |-> so[i].tables[k].size])
               /\ so[i].capacity >= Sum([k \in DOMAIN so[i].tables |-> so[i].tables[k].cap])
               /\ \A k \in DOMAIN so[i].tables : so[i].tables[k].size <= so[i].tables[k].cap

=============================================================================
