------------------------------- MODULE ArkPool -------------------------------
(***************************************************************************)
(* The entity pool of mlange-42/ark (pool.go:40-78: Get / getNew /         *)
(* Recycle / Alive) on its own, written for an inductive argument (C02):   *)
(* for ANY number of creations and removals - not only the histories a     *)
(* bounded search reaches - every handle returned by a creation is new,    *)
(* Alive(h) is exact, and the free list threaded through the pool is a     *)
(* duplicate-free list of exactly the dead ids.                            *)
(*                                                                         *)
(* IndInv is checked to be inductive with Apalache (Init => IndInv;        *)
(* IndInv /\ Next => IndInv') for pools of up to N ids and generations     *)
(* below G; TLC checks the same invariants on the reachable states.        *)
(* Ids are 1..N (the code's ids minus the two reserved ones).              *)
(***************************************************************************)
EXTENDS Integers, Sequences, FiniteSets

CONSTANTS
    \* @type: Int;
    N,
    \* @type: Int;
    G

VARIABLES
    \* @type: Int -> Int;
    link,      \* entities[id].id: own id when alive, next free id (0: none) when dead
    \* @type: Int -> Int;
    gen,       \* entities[id].gen
    \* @type: Int;
    len,       \* number of ids handed out so far (len(entities) - reserved)
    \* @type: Int;
    next,      \* entityPool.next: head of the free list (meaningful when avail > 0)
    \* @type: Int;
    avail,     \* entityPool.available
    \* @type: Int -> Int;
    free,      \* ghost: the free list in order (positions 1..avail; 0 beyond)
    \* @type: Set(<<Int, Int>>);
    issued,    \* ghost: every handle <<id, gen>> ever returned by Get
    \* @type: Set(<<Int, Int>>);
    alive,     \* ghost: handles created and not yet removed
    \* @type: <<Int, Int>>;
    last       \* ghost: the handle returned by the last Get (<<0, 0>>: none)

Ids == 1..N
Gens == 0..G

\* @type: (<<Int, Int>>) => Bool;
AliveB(h) == h[1] \in Ids /\ h[1] <= len /\ gen[h[1]] = h[2]          \* entityPool.Alive

Init ==
    /\ link = [i \in Ids |-> 0] /\ gen = [i \in Ids |-> 0]
    /\ len = 0 /\ next = 0 /\ avail = 0 /\ free = [i \in Ids |-> 0]
    /\ issued = {} /\ alive = {} /\ last = <<0, 0>>

GetNew ==       \* getNew: append a fresh id with generation 0
    /\ avail = 0 /\ len < N
    /\ len' = len + 1
    /\ link' = [link EXCEPT ![len + 1] = len + 1]
    /\ gen' = [gen EXCEPT ![len + 1] = 0]
    /\ last' = <<len + 1, 0>>
    /\ issued' = issued \union {<<len + 1, 0>>} /\ alive' = alive \union {<<len + 1, 0>>}
    /\ UNCHANGED <<next, avail, free>>

GetRecycled ==  \* Get: pop the head of the free list
    /\ avail > 0
    /\ LET cur == next IN
       /\ next' = link[cur]
       /\ link' = [link EXCEPT ![cur] = cur]
       /\ avail' = avail - 1
       /\ free' = [i \in Ids |-> IF i < N THEN free[i + 1] ELSE 0]
       /\ last' = <<cur, gen[cur]>>
       /\ issued' = issued \union {<<cur, gen[cur]>>} /\ alive' = alive \union {<<cur, gen[cur]>>}
    /\ UNCHANGED <<gen, len>>

\* @type: (<<Int, Int>>) => Bool;
Recycle(h) ==   \* Recycle: push the id, increment its generation
    /\ h \in alive /\ gen[h[1]] < G
    /\ link' = [link EXCEPT ![h[1]] = next]
    /\ gen' = [gen EXCEPT ![h[1]] = @ + 1]
    /\ next' = h[1] /\ avail' = avail + 1
    /\ free' = [i \in Ids |-> IF i = 1 THEN h[1] ELSE free[i - 1]]
    /\ alive' = alive \ {h} /\ last' = <<0, 0>>
    /\ UNCHANGED <<len, issued>>

Next == GetNew \/ GetRecycled \/ \E h \in alive : Recycle(h)

\* ------------------------------------------------------------------ properties (C02)
Fresh == last # <<0, 0>> => (last \in alive /\ \A h \in issued : h[1] = last[1] => h[2] <= last[2])
AliveExact == \A h \in issued : AliveB(h) <=> h \in alive
CountExact == Cardinality(alive) = len - avail

\* ------------------------------------------------------------------ the inductive invariant
TypeOK ==
    /\ link \in [Ids -> 0..N] /\ gen \in [Ids -> Gens]
    /\ len \in 0..N /\ next \in 0..N /\ avail \in 0..N
    /\ free \in [Ids -> 0..N]
    /\ issued \in SUBSET (Ids \X Gens) /\ alive \in SUBSET (Ids \X Gens)
    /\ last \in (0..N) \X Gens

FreePos == {i \in Ids : i <= avail}
FreeIds == {free[i] : i \in FreePos}
IndInv ==
    /\ TypeOK
    /\ avail <= len
    /\ \A i \in Ids : i > avail => free[i] = 0
    /\ \A i \in FreePos : free[i] \in Ids /\ free[i] <= len
    /\ \A i, j \in FreePos : i # j => free[i] # free[j]
    /\ avail > 0 => next = free[1]
    /\ \A i \in FreePos : i < avail => link[free[i]] = free[i + 1]
    /\ \A id \in Ids : (id <= len /\ id \notin FreeIds) => link[id] = id
    /\ alive \subseteq issued
    /\ \A h \in issued : h[1] \in Ids /\ h[1] <= len /\ h[2] <= gen[h[1]]
    /\ \A h \in issued : h \in alive <=> (h[2] = gen[h[1]] /\ h[1] \notin FreeIds)
    /\ \A id \in Ids : (id <= len /\ id \notin FreeIds) => <<id, gen[id]>> \in alive
    /\ \A id \in FreeIds : \A h \in issued : h[1] = id => h[2] < gen[id]
    /\ Fresh /\ AliveExact /\ CountExact

IndInit == IndInv
=============================================================================
