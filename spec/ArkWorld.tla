------------------------------ MODULE ArkWorld ------------------------------
(***************************************************************************)
(* Layer A: what a user of mlange-42/ark can observe through the public    *)
(* API, as pure operators over a world record.  No internal identifiers of *)
(* the implementation occur here; the module survives any refactoring that *)
(* keeps the documented behaviour.                                         *)
(*                                                                         *)
(* The operators are used three times:                                     *)
(*   - ArkStorage (layer B, implementation shaped) carries a ghost world   *)
(*     that is advanced with these operators; the refinement invariant     *)
(*     Abs(B) = ghost is checked by TLC in every reachable state;          *)
(*   - ArkTrace (the monitor) advances a world with the same operators for *)
(*     every event recorded from the real code and compares;               *)
(*   - ArkObs / product monitors use Fires, Select etc. as the oracle.     *)
(*                                                                         *)
(* A world is a record                                                     *)
(*   ent    : [alive handles -> [c: set of comps, v: [c -> value],         *)
(*                               t: [c \cap rel -> handle]]]               *)
(*   issued : all handles handed out since creation / Reset / Load         *)
(*   rel    : the relation components                                      *)
(*   open   : [query id -> [rem: handles not yet yielded, flt: filter]]    *)
(*   cb     : nesting depth of internal critical sections (callbacks)      *)
(*   regF   : [filter id -> filter]   registered (cached) filters          *)
(*   obs    : [observer id -> observer spec] registered observers          *)
(*   res    : [resource type -> value]  the resources present              *)
(*   nreg   : component types registered since the world was set up        *)
(* A handle is a pair <<id, gen>>; Zero == <<0,0>> is the zero entity.     *)
(***************************************************************************)
EXTENDS Integers, Sequences, FiniteSets, TLC

Zero == <<0, 0>>

SetOf(s)      == {s[i] : i \in DOMAIN s}
RestrictTo(f,S) == [x \in S |-> f[x]]
Drop(f, S)    == [x \in (DOMAIN f) \ S |-> f[x]]
Merge(f, g)   == [x \in (DOMAIN f) \cup (DOMAIN g) |-> IF x \in DOMAIN g THEN g[x] ELSE f[x]]
Single(k, v)  == [x \in {k} |-> v]
EmptyFn       == [x \in {} |-> x]
Fn(r)         == [k \in DOMAIN r |-> r[k]]   \* normal form of a JSON object / record as a function

NewWorld(rel) == [ent |-> EmptyFn, issued |-> {}, rel |-> rel, open |-> EmptyFn,
                  cb |-> 0, regF |-> EmptyFn, obs |-> EmptyFn, res |-> EmptyFn, nreg |-> 0]

Alive(w)   == DOMAIN w.ent
IsAlive(w, h) == h \in DOMAIN w.ent
Locked(w)  == (DOMAIN w.open # {}) \/ w.cb > 0
CompsOf(w, e) == w.ent[e].c
RelOf(w, C) == C \cap w.rel

TargetsOK(w, tg) == \A c \in DOMAIN tg : tg[c] = Zero \/ tg[c] \in Alive(w)

(***************************************************************************)
(* Filters.  flt = [with, without : sets; excl : BOOLEAN;                  *)
(*                  ft : fixed targets [c -> h]; qt : per-query targets]   *)
(***************************************************************************)
MatchesComps(flt, C) ==
    /\ flt.with \subseteq C
    /\ C \cap flt.without = {}
    /\ (flt.excl => C = flt.with)

FltTargets(flt) == Merge(flt.ft, flt.qt)

Matches(w, flt, e) ==
    LET r == w.ent[e] IN
    /\ MatchesComps(flt, r.c)
    /\ \A c \in DOMAIN FltTargets(flt) : c \in DOMAIN r.t /\ r.t[c] = FltTargets(flt)[c]

Select(w, flt) == {e \in Alive(w) : Matches(w, flt, e)}

\* A filter is well formed if its relation targets name relation components it requires.
FilterOK(w, flt) ==
    /\ DOMAIN FltTargets(flt) \subseteq (flt.with \cap w.rel)
    /\ (DOMAIN flt.ft) \cap (DOMAIN flt.qt) = {}

(***************************************************************************)
(* Single entity operations: precondition, effect.                         *)
(***************************************************************************)
PreNew(w, C, tg) ==
    /\ ~Locked(w)
    /\ DOMAIN tg = RelOf(w, C)
    /\ TargetsOK(w, tg)

DoNew(w, h, C, vals, tg) ==
    [w EXCEPT !.ent = Merge(@, Single(h, [c |-> C, v |-> vals, t |-> tg])),
              !.issued = @ \cup {h}]

PreCopy(w, e) == ~Locked(w) /\ IsAlive(w, e)
DoCopy(w, h, e) ==
    [w EXCEPT !.ent = Merge(@, Single(h, w.ent[e])), !.issued = @ \cup {h}]

PreAdd(w, e, C, tg) ==
    /\ ~Locked(w)
    /\ IsAlive(w, e)
    /\ C # {}
    /\ C \cap CompsOf(w, e) = {}
    /\ DOMAIN tg = RelOf(w, C)
    /\ TargetsOK(w, tg)

DoAdd(w, e, C, vals, tg) ==
    [w EXCEPT !.ent[e] = [c |-> @.c \cup C, v |-> Merge(@.v, vals), t |-> Merge(@.t, tg)]]

PreRemove(w, e, C) ==
    /\ ~Locked(w)
    /\ IsAlive(w, e)
    /\ C # {}
    /\ C \subseteq CompsOf(w, e)

DoRemove(w, e, C) ==
    [w EXCEPT !.ent[e] = [c |-> @.c \ C, v |-> Drop(@.v, C), t |-> Drop(@.t, C)]]

PreExchange(w, e, add, rem, tg) ==
    /\ ~Locked(w)
    /\ IsAlive(w, e)
    /\ add \cup rem # {}
    /\ rem \subseteq CompsOf(w, e)
    /\ add \cap CompsOf(w, e) = {}
    /\ DOMAIN tg = RelOf(w, add)
    /\ TargetsOK(w, tg)

DoExchange(w, e, add, rem, vals, tg) ==
    [w EXCEPT !.ent[e] = [c |-> (@.c \ rem) \cup add,
                          v |-> Merge(Drop(@.v, rem), vals),
                          t |-> Merge(Drop(@.t, rem), tg)]]

\* Set is allowed on a locked world.
PreSet(w, e, C) == IsAlive(w, e) /\ C # {} /\ C \subseteq CompsOf(w, e)
DoSet(w, e, vals) == [w EXCEPT !.ent[e].v = Merge(@, vals)]

PreSetRel(w, e, tg) ==
    /\ ~Locked(w)
    /\ IsAlive(w, e)
    /\ DOMAIN tg # {}
    /\ DOMAIN tg \subseteq RelOf(w, CompsOf(w, e))
    /\ TargetsOK(w, tg)

DoSetRel(w, e, tg) == [w EXCEPT !.ent[e].t = Merge(@, tg)]

PreKill(w, e) == ~Locked(w) /\ IsAlive(w, e)

\* Removing entities S: they disappear; every relation that pointed at one of
\* them points at the zero entity; nothing else changes (C04).
Detach(r, S) == [r EXCEPT !.t = [c \in DOMAIN @ |-> IF @[c] \in S THEN Zero ELSE @[c]]]
DoKillSet(w, S) ==
    [w EXCEPT !.ent = [x \in (DOMAIN @) \ S |-> Detach(@[x], S)]]
DoKill(w, e) == DoKillSet(w, {e})

(***************************************************************************)
(* Batch operations: the fold of the single operation over the selection   *)
(* evaluated in the pre-state (C06).  Per-entity effects on distinct       *)
(* entities commute, so the fold is written as a map over the selection.   *)
(***************************************************************************)
PreBatchCommon(w, flt) == ~Locked(w) /\ FilterOK(w, flt) /\ TargetsOK(w, FltTargets(flt))

PreAddBatch(w, flt, C, tg) ==
    /\ PreBatchCommon(w, flt)
    /\ C # {}
    /\ DOMAIN tg = RelOf(w, C)
    /\ TargetsOK(w, tg)
    /\ \A e \in Select(w, flt) : C \cap CompsOf(w, e) = {}

PreRemoveBatch(w, flt, C) ==
    /\ PreBatchCommon(w, flt)
    /\ C # {}
    /\ \A e \in Select(w, flt) : C \subseteq CompsOf(w, e)

PreExchangeBatch(w, flt, add, rem, tg) ==
    /\ PreBatchCommon(w, flt)
    /\ add \cup rem # {}
    /\ DOMAIN tg = RelOf(w, add)
    /\ TargetsOK(w, tg)
    /\ \A e \in Select(w, flt) : rem \subseteq CompsOf(w, e) /\ add \cap CompsOf(w, e) = {}

\* vf[x] : values written to the added components of entity x (a batch callback may write
\* different values per entity; the value form of the API writes the same to all)
DoExchangeBatch(w, S, add, rem, vf, tg) ==
    [w EXCEPT !.ent = [x \in DOMAIN @ |->
        IF x \in S
        THEN [c |-> (@[x].c \ rem) \cup add,
              v |-> Merge(Drop(@[x].v, rem), vf[x]),
              t |-> Merge(Drop(@[x].t, rem), tg)]
        ELSE @[x]]]

PreSetRelBatch(w, flt, tg) ==
    /\ PreBatchCommon(w, flt)
    /\ DOMAIN tg # {}
    /\ TargetsOK(w, tg)
    /\ \A e \in Select(w, flt) : DOMAIN tg \subseteq RelOf(w, CompsOf(w, e))

DoSetRelBatch(w, S, tg) ==
    [w EXCEPT !.ent = [x \in DOMAIN @ |->
        IF x \in S THEN [@[x] EXCEPT !.t = Merge(@, tg)] ELSE @[x]]]

PreKillBatch(w, flt) == PreBatchCommon(w, flt)

(***************************************************************************)
(* Queries and the world lock (C03, C07).                                  *)
(***************************************************************************)
PreQOpen(w, q, flt) == q \notin DOMAIN w.open /\ FilterOK(w, flt)
DoQOpen(w, q, flt)  == [w EXCEPT !.open = Merge(@, Single(q, [rem |-> Select(w, flt), flt |-> flt]))]
DoQYield(w, q, e)   == [w EXCEPT !.open[q].rem = @ \ {e}]
DoQClose(w, q)      == [w EXCEPT !.open = Drop(@, {q})]

(***************************************************************************)
(* Filter cache, Shrink, Reset.  Shrink and (un)registration do not change *)
(* anything A can see except the set of registered filters (C05, C15).     *)
(***************************************************************************)
DoRegF(w, f, flt) == [w EXCEPT !.regF = Merge(@, Single(f, flt))]
DoUnregF(w, f)    == [w EXCEPT !.regF = Drop(@, {f})]

PreReset(w) == ~Locked(w)
DoReset(w)  == [NewWorld(w.rel) EXCEPT !.nreg = w.nreg]     \* the component registry survives Reset

\* Unsafe.DumpEntities + Unsafe.LoadEntities into a fresh or reset world, which then replaces the world (C17): the
\* same handles are alive / dead, entities have no components, nothing is registered; the next creations return
\* what they would have returned in the source world (layer B: the free list travels with the dump).
PreLoad(w) == ~Locked(w)
DoLoad(w)  == [NewWorld(w.rel) EXCEPT !.ent = [h \in DOMAIN w.ent |-> [c |-> {}, v |-> EmptyFn, t |-> EmptyFn]],
                                      !.issued = w.issued, !.nreg = w.nreg]

\* Registering a component type the world has not seen (C18): rejected on a locked world, nothing changes (C07);
\* otherwise the type gets the next id; which components are relations never changes.
PreRegType(w) == ~Locked(w)
DoRegType(w)  == [w EXCEPT !.nreg = @ + 1]

(***************************************************************************)
(* Resources (C18, C16): a partial map from resource type to value.  Add   *)
(* of a type that is present and Remove of one that is absent panic and    *)
(* change nothing; the world lock does not matter; Get returns the stored  *)
(* pointer (writes through it are ResSet); Reset removes all resources.    *)
(***************************************************************************)
HasRes(w, t)       == t \in DOMAIN w.res
PreResAdd(w, t)    == ~HasRes(w, t)
DoResAdd(w, t, v)  == [w EXCEPT !.res = Merge(@, Single(t, v))]
PreResRemove(w, t) == HasRes(w, t)
DoResRemove(w, t)  == [w EXCEPT !.res = Drop(@, {t})]
PreResSet(w, t)    == HasRes(w, t)
DoResSet(w, t, v)  == [w EXCEPT !.res[t] = v]

(***************************************************************************)
(* Observers (C08).  o = [ev, obs, with, without : sets; excl : BOOLEAN].  *)
(* Fires is transcribed from the documentation (docs/content/events):      *)
(*  - the event types are equal;                                           *)
(*  - all observed components are affected by this one operation           *)
(*    ("both must be added or removed together"); for entity creation /    *)
(*    removal the observed components count as `with`;                     *)
(*  - with / without / exclusive are evaluated on the composition X: the   *)
(*    entity before the operation for component add / remove events, the   *)
(*    (unchanged) entity for set / relation-target / custom events, the    *)
(*    new entity for creation, the entity about to disappear for removal.  *)
(***************************************************************************)
EntityEvents == {"OnCreateEntity", "OnRemoveEntity"}
RemovalEvents == {"OnRemoveEntity", "OnRemoveComponents", "OnRemoveRelations"}

ObsNorm(o) == IF o.ev \in EntityEvents THEN [o EXCEPT !.with = o.with \cup o.obs, !.obs = {}] ELSE o

Fires(o0, ev, changed, X) ==
    LET o == ObsNorm(o0) IN
    /\ o.ev = ev
    /\ (o.obs = {} \/ o.obs \subseteq changed)
    /\ o.with \subseteq X
    /\ o.without \cap X = {}
    /\ (o.excl => X = o.with)

\* the callbacks one event triggers: records [o, e, ph] ; ph = "pre" (before the change) or "post"
EvCbs(w, ev, changed, X, e) ==
    {[o |-> i, e |-> e, ph |-> IF ev \in RemovalEvents THEN "pre" ELSE "post"] :
        i \in {j \in DOMAIN w.obs : Fires(w.obs[j], ev, changed, X)}}

\* callbacks of the single-entity operations on entity x (h: the created handle for New / Copy)
CbsNew(w, h, C, tg) ==
    EvCbs(w, "OnCreateEntity", C, C, h)
    \cup (IF DOMAIN tg # {} THEN EvCbs(w, "OnAddRelations", DOMAIN tg, C, h) ELSE {})
CbsCopy(w, h, e) ==
    LET C == CompsOf(w, e) IN
    EvCbs(w, "OnCreateEntity", C, C, h)
    \cup (IF RelOf(w, C) # {} THEN EvCbs(w, "OnAddRelations", RelOf(w, C), C, h) ELSE {})
CbsExchange(w, x, add, rem, tg) ==
    LET old == CompsOf(w, x) IN
    (IF rem # {} THEN EvCbs(w, "OnRemoveComponents", rem, old, x) ELSE {})
    \cup (IF RelOf(w, rem) # {} THEN EvCbs(w, "OnRemoveRelations", RelOf(w, rem), old, x) ELSE {})
    \cup (IF add # {} THEN EvCbs(w, "OnAddComponents", add, old, x) ELSE {})
    \cup (IF add # {} /\ DOMAIN tg # {} THEN EvCbs(w, "OnAddRelations", DOMAIN tg, old, x) ELSE {})
CbsSet(w, x, C) == EvCbs(w, "OnSetComponents", C, CompsOf(w, x), x)
CbsSetRel(w, x, tg) ==
    LET d == {c \in DOMAIN tg : w.ent[x].t[c] # tg[c]} IN
    IF d = {} THEN {}
    ELSE EvCbs(w, "OnRemoveRelations", d, CompsOf(w, x), x) \cup EvCbs(w, "OnAddRelations", d, CompsOf(w, x), x)
CbsKill(w, x) ==
    LET C == CompsOf(w, x) IN
    EvCbs(w, "OnRemoveEntity", C, C, x)
    \cup (IF RelOf(w, C) # {} THEN EvCbs(w, "OnRemoveRelations", RelOf(w, C), C, x) ELSE {})
CbsEmit(w, evt, C, x) == EvCbs(w, evt, C, IF x = Zero THEN {} ELSE CompsOf(w, x), x)

DoRegO(w, i, o) == [w EXCEPT !.obs = Merge(@, Single(i, o))]
DoUnregO(w, i)  == [w EXCEPT !.obs = Drop(@, {i})]

(***************************************************************************)
(* State properties of A (checked by TLC on every reachable ghost world    *)
(* of layer B and by the monitor on every recorded execution).             *)
(***************************************************************************)
WorldTypeOK(w) ==
    /\ Alive(w) \subseteq w.issued
    /\ \A e \in Alive(w) :
         /\ DOMAIN w.ent[e].v = w.ent[e].c
         /\ DOMAIN w.ent[e].t = RelOf(w, w.ent[e].c)

\* C04: a relation target is the zero entity or an alive entity.
TargetsValid(w) ==
    \A e \in Alive(w) : \A c \in DOMAIN w.ent[e].t :
        w.ent[e].t[c] = Zero \/ w.ent[e].t[c] \in Alive(w)

\* C02: ids of alive entities are pairwise distinct (a handle is identified by id AND generation,
\* but two alive handles never share an id).
AliveIdsDistinct(w) ==
    \A a, b \in Alive(w) : a[1] = b[1] => a = b

=============================================================================
