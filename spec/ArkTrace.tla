------------------------------ MODULE ArkTrace ------------------------------
(***************************************************************************)
(* The acceptor: a total, non-halting monitor over layer A (ArkWorld) for  *)
(* ndjson logs recorded from executions of the real ecs.World.             *)
(*                                                                         *)
(* One TLC state per log line.  For every "op" event the monitor evaluates *)
(* the precondition of the operation in its own world `w`, advances `w`    *)
(* with ArkWorld's effect operator, binding what A leaves open (the handle *)
(* issued, values written inside callbacks) to the logged values, and      *)
(* compares the outcome (panic / no panic, returned handles, callbacks)    *)
(* and the logged projection of the real world with its own state.  Every  *)
(* disagreement is appended to `viol` with the class (and so the property) *)
(* it belongs to; the rest of that sequence is skipped up to the next      *)
(* "reset" line.  When the last line is consumed `viol` is printed as JSON.*)
(***************************************************************************)
EXTENDS ArkWorld, Json, IOUtils

Trace == ndJsonDeserialize(IOEnv.TRACE_FILE)

VARIABLES l,      \* next line
          w,      \* the layer-A world
          skip,   \* skipping to the next reset after a disagreement / undefined op
          viol,   \* violations found so far
          seqno   \* number of the current sequence (reset events seen)

tvars == <<l, w, skip, viol, seqno>>

V(cls, d) == [l |-> l, seq |-> seqno, cls |-> cls, d |-> ToString(d)]

FltOf(j) == [with |-> SetOf(j.with), without |-> SetOf(j.without), excl |-> j.excl, ft |-> Fn(j.ft), qt |-> Fn(j.qt)]

\* The logged projection as a layer-A entity map
LoggedEnt(st) ==
    [h \in {st.ents[i].e : i \in DOMAIN st.ents} |->
        LET r == st.ents[CHOOSE i \in DOMAIN st.ents : st.ents[i].e = h] IN
        [c |-> SetOf(r.c), v |-> Fn(r.v), t |-> Fn(r.t)]]

RelTouched(ev) == (SetOf(ev.add) \cup SetOf(ev.rem)) \cap w.rel # {} \/ DOMAIN Fn(ev.tg) # {}
                  \/ ev.op \in {"SetRel", "SetRelBatch", "Kill", "KillBatch"}

(***************************************************************************)
(* Expected outcome of an operation event: [def, pre, w2, foot]            *)
(*   def  : A defines the outcome (otherwise the sequence is abandoned)    *)
(*   pre  : the precondition holds (otherwise: panic, nothing changes)     *)
(*   w2   : the world after a successful call                              *)
(*   foot : the entities the operation is allowed to change                *)
(***************************************************************************)
BVals(ev, S, C) ==
    [x \in S |-> IF \E i \in DOMAIN ev.bvals : ev.bvals[i].e = x
                 THEN Fn(ev.bvals[CHOOSE i \in DOMAIN ev.bvals : ev.bvals[i].e = x].v)
                 ELSE [c \in C |-> 0]]

Expect(ev) ==
    LET add == SetOf(ev.add) rem == SetOf(ev.rem) e == ev.e flt == FltOf(ev.flt) etg == Fn(ev.tg) evals == Fn(ev.vals)
        S == IF FilterOK(w, flt) THEN Select(w, flt) ELSE {}
        isB == ev.op \in {"AddBatch", "RemoveBatch", "ExchangeBatch", "SetRelBatch", "KillBatch"}
        \* a batch with an empty selection and invalid arguments: the properties do not say whether it panics
        R(pre, w2, foot) == [def |-> ~(isB /\ ~pre /\ S = {} /\ ~Locked(w)), pre |-> pre, w2 |-> w2, foot |-> foot]
    IN
    CASE ev.op = "New" ->
            IF PreNew(w, add, etg) /\ ~ev.panic
            THEN R(TRUE, DoNew(w, ev.ret[1], add, evals, etg), {ev.ret[1]})
            ELSE R(PreNew(w, add, etg), w, {})
      [] ev.op = "NewBatch" ->
            IF PreNew(w, add, etg) /\ ~ev.panic
            THEN LET RECURSIVE Go(_, _)
                     Go(ww, i) == IF i > Len(ev.ret) THEN ww
                                  ELSE Go(DoNew(ww, ev.ret[i], add, BVals(ev, {ev.ret[i]}, add)[ev.ret[i]], etg), i + 1)
                 IN R(TRUE, Go(w, 1), SetOf(ev.ret))
            ELSE R(PreNew(w, add, etg), w, {})
      [] ev.op = "Copy" ->
            IF PreCopy(w, e) /\ ~ev.panic
            THEN R(TRUE, DoCopy(w, ev.ret[1], e), {ev.ret[1]})
            ELSE R(PreCopy(w, e), w, {})
      [] ev.op = "Add" ->
            IF PreAdd(w, e, add, etg) THEN R(TRUE, DoAdd(w, e, add, evals, etg), {e}) ELSE R(FALSE, w, {})
      [] ev.op = "Remove" ->
            IF PreRemove(w, e, rem) THEN R(TRUE, DoRemove(w, e, rem), {e}) ELSE R(FALSE, w, {})
      [] ev.op = "Exchange" ->
            IF PreExchange(w, e, add, rem, etg)
            THEN R(TRUE, DoExchange(w, e, add, rem, evals, etg), {e}) ELSE R(FALSE, w, {})
      [] ev.op = "Set" ->
            IF PreSet(w, e, add) THEN R(TRUE, DoSet(w, e, evals), {e}) ELSE R(FALSE, w, {})
      [] ev.op = "SetRel" ->
            IF PreSetRel(w, e, etg) THEN R(TRUE, DoSetRel(w, e, etg), {e}) ELSE R(FALSE, w, {})
      [] ev.op = "Read" ->   \* checked read access (Get / Has / GetRelation / IDs): only dead handles are probed
            IF IsAlive(w, e) THEN [def |-> FALSE, pre |-> TRUE, w2 |-> w, foot |-> {}] ELSE R(FALSE, w, {})
      [] ev.op = "Kill" ->
            IF PreKill(w, e) THEN R(TRUE, DoKill(w, e), {e}) ELSE R(FALSE, w, {})
      [] ev.op = "AddBatch" ->
            IF PreAddBatch(w, flt, add, etg)
            THEN R(TRUE, DoExchangeBatch(w, S, add, {}, BVals(ev, S, add), etg), S) ELSE R(FALSE, w, {})
      [] ev.op = "RemoveBatch" ->
            IF PreRemoveBatch(w, flt, rem)
            THEN R(TRUE, DoExchangeBatch(w, S, {}, rem, [x \in S |-> EmptyFn], EmptyFn), S) ELSE R(FALSE, w, {})
      [] ev.op = "ExchangeBatch" ->
            IF PreExchangeBatch(w, flt, add, rem, etg)
            THEN R(TRUE, DoExchangeBatch(w, S, add, rem, BVals(ev, S, add), etg), S) ELSE R(FALSE, w, {})
      [] ev.op = "SetRelBatch" ->
            IF PreSetRelBatch(w, flt, etg) THEN R(TRUE, DoSetRelBatch(w, S, etg), S) ELSE R(FALSE, w, {})
      [] ev.op = "KillBatch" ->
            IF PreKillBatch(w, flt) THEN R(TRUE, DoKillSet(w, S), S) ELSE R(FALSE, w, {})
      [] ev.op = "RegF" ->
            IF ev.f \notin DOMAIN w.regF THEN R(TRUE, DoRegF(w, ev.f, flt), {}) ELSE R(FALSE, w, {})
      [] ev.op = "UnregF" ->
            IF ev.f \in DOMAIN w.regF THEN R(TRUE, DoUnregF(w, ev.f), {}) ELSE R(FALSE, w, {})
      [] ev.op = "Shrink" ->
            IF Locked(w) THEN [def |-> FALSE, pre |-> TRUE, w2 |-> w, foot |-> {}] ELSE R(TRUE, w, {})
      [] ev.op = "Reset" ->
            IF PreReset(w) THEN R(TRUE, DoReset(w), {}) ELSE R(FALSE, w, {})
      [] OTHER -> [def |-> FALSE, pre |-> TRUE, w2 |-> w, foot |-> {}]

(***************************************************************************)
(* Comparison of one op event with the expectation: the set of violations. *)
(***************************************************************************)
CreatedBy(ev) == IF ev.op \in {"New", "NewBatch", "Copy"} /\ ~ev.panic THEN ev.ret ELSE <<>>

CheckOp(ev) ==
    LET x   == Expect(ev)
        exp == IF x.pre /\ ~ev.panic THEN x.w2 ELSE w
        got == LoggedEnt(ev.st)
        made == CreatedBy(ev)
        isBatch == ev.op \in {"AddBatch", "RemoveBatch", "ExchangeBatch", "SetRelBatch", "KillBatch"}
        lockMis == Locked(w) /\ ev.op # "Set"
        vPanic ==
            IF x.pre /\ ev.panic
            THEN {V(IF RelTouched(ev) THEN "C04.valid-call-panicked" ELSE "C01.valid-call-panicked", ev.op)}
            ELSE IF ~x.pre /\ ~ev.panic
            THEN {V(IF lockMis THEN "C07.structural-succeeded" ELSE "C10.accepted", ev.op)}
            ELSE {}
        vDup == {V("C02.duplicate-handle", made[i]) : i \in {j \in DOMAIN made : made[j] \in w.issued}}
                \cup {V("C02.duplicate-handle", made[i]) :
                        i \in {j \in DOMAIN made : \E k \in DOMAIN made : k # j /\ made[k] = made[j]}}
        \* liveness of every handle ever issued
        shouldLive == DOMAIN exp.ent
        vAlive == {V("C02.alive-mismatch", h) : h \in {g \in SetOf(ev.st.alive) : g \notin shouldLive}}
                  \cup {V("C02.alive-mismatch", h) : h \in {g \in shouldLive : g \notin SetOf(ev.st.alive)}}
                  \cup {V("C02.alive-mismatch", h) : h \in {g \in SetOf(ev.st.dead) : g \in shouldLive}}
        vCount == IF ev.st.used # Cardinality(shouldLive)
                  THEN {V(IF ~x.pre \/ ev.panic THEN (IF lockMis THEN "C07.effect-after-panic" ELSE "C10.state-changed")
                          ELSE "C02.count", ev.st.used)}
                  ELSE {}
        common == (DOMAIN got) \cap shouldLive
        Cls(h, kind) ==
            IF ~x.pre \/ ev.panic THEN (IF lockMis THEN "C07.effect-after-panic" ELSE "C10.state-changed")
            ELSE IF ev.op = "Shrink" THEN "C15.visible"
            ELSE IF ev.op = "Reset" THEN "C16.diverge"
            ELSE IF h \notin x.foot THEN (IF kind = "t" THEN "C04.target" ELSE IF isBatch THEN "C06.unselected" ELSE "C01.other-entity")
            ELSE IF isBatch THEN "C06.state"
            ELSE IF kind = "t" THEN "C04.target"
            ELSE IF kind = "c" THEN "C01.compset" ELSE "C01.value"
        vEnt == UNION {
                  (IF got[h].c # exp.ent[h].c THEN {V(Cls(h, "c"), <<h, got[h].c>>)} ELSE {})
                  \cup (IF got[h].c = exp.ent[h].c /\ got[h].v # exp.ent[h].v THEN {V(Cls(h, "v"), <<h, got[h].v>>)} ELSE {})
                  \cup (IF got[h].c = exp.ent[h].c /\ got[h].t # exp.ent[h].t THEN {V(Cls(h, "t"), <<h, got[h].t>>)} ELSE {})
                  : h \in common}
        vLock == IF ev.st.locked # Locked(exp)
                 THEN {V(IF ~x.pre \/ ev.panic THEN "C10.lock-state-changed" ELSE "C07.locked-mismatch", ev.st.locked)} ELSE {}
        \* batch callbacks: exactly once per selected entity (C06)
        \* batch callbacks (C06): exactly once per entity the operation changes, at most once per other
        \* selected entity (a SetRelationsBatch that leaves an entity's targets unchanged need not call back),
        \* never for an entity that was not selected
        vCb == IF isBatch /\ x.pre /\ ~ev.panic /\ ev.mode = "fn"
               THEN LET es == [i \in DOMAIN ev.bvals |-> ev.bvals[i].e]
                        cnt(g) == Cardinality({i \in DOMAIN es : es[i] = g})
                        must == {g \in x.foot : ev.op # "SetRelBatch" \/ w.ent[g] # x.w2.ent[g]}
                    IN
                    {V("C06.callback-count", h) : h \in {g \in must : cnt(g) # 1}}
                    \cup {V("C06.callback-count", h) : h \in {g \in x.foot \ must : cnt(g) > 1}}
                    \cup {V("C06.callback-count", es[i]) : i \in {j \in DOMAIN es : es[j] \notin x.foot}}
               ELSE {}
    IN [def |-> x.def, next |-> exp,
        vs |-> IF x.def THEN vPanic \cup vDup \cup vAlive \cup vCount \cup vEnt \cup vLock \cup vCb ELSE {}]

(***************************************************************************)
(* Probes: a query / Count / EntityAt battery run by the executor.         *)
(***************************************************************************)
CheckProbe(ev) ==
    LET flt == FltOf(ev.flt)
        S   == Select(w, flt)
        vis == ev.visited
        es  == [i \in DOMAIN vis |-> vis[i].e]
        pfx == IF ev.f # 0 THEN "C05." ELSE "C03."
        vMissing == {V(pfx \o "missing", h) : h \in {g \in S : \A i \in DOMAIN es : es[i] # g}}
        vExtra   == {V(pfx \o "extra", es[i]) : i \in {j \in DOMAIN es : es[j] \notin S}}
        vDupl    == {V(pfx \o "duplicate", es[i]) : i \in {j \in DOMAIN es : \E k \in DOMAIN es : k < j /\ es[k] = es[j]}}
        vData    == {V("C03.data", vis[i]) : i \in {j \in DOMAIN vis :
                        /\ vis[j].e \in S
                        /\ \/ \E c \in DOMAIN vis[j].v : vis[j].v[c] # w.ent[vis[j].e].v[c]
                           \/ \E c \in DOMAIN vis[j].t : vis[j].t[c] # w.ent[vis[j].e].t[c]
                           \/ ~vis[j].ptreq}}
        vCount   == IF ev.count # Cardinality(S) THEN {V(pfx \o "count", ev.count)} ELSE {}
        vAt      == IF ev.at # es /\ Len(es) = Cardinality(S) THEN {V(pfx \o "entityAt", ev.at)} ELSE {}
        vPanic   == IF ev.panic THEN {V(pfx \o "query-panicked", ev.flt)} ELSE {}
    IN IF ~FilterOK(w, flt) \/ ~TargetsOK(w, FltTargets(flt)) THEN {}
       ELSE vMissing \cup vExtra \cup vDupl \cup vData \cup vCount \cup vAt \cup vPanic

(***************************************************************************)
(* The monitor's state machine.                                            *)
(***************************************************************************)
TInit == /\ l = 1 /\ w = NewWorld({}) /\ skip = TRUE /\ viol = <<>> /\ seqno = 0

SetToSeq(S) == LET RECURSIVE G(_) G(T) == IF T = {} THEN <<>> ELSE LET x == CHOOSE y \in T : TRUE IN <<x>> \o G(T \ {x}) IN G(S)

TNext ==
    /\ l <= Len(Trace)
    /\ l' = l + 1
    /\ LET ev == Trace[l] IN
       CASE ev.k = "reset" ->
                /\ w' = NewWorld(SetOf(ev.rel)) /\ skip' = FALSE /\ seqno' = seqno + 1 /\ viol' = viol
         [] ev.k = "op" /\ ~skip ->
                LET r == CheckOp(ev) IN
                /\ viol' = viol \o SetToSeq(r.vs)
                /\ skip' = (r.vs # {} \/ ~r.def)
                /\ w' = r.next
                /\ seqno' = seqno
         [] ev.k = "probe" /\ ~skip ->
                LET vs == CheckProbe(ev) IN
                /\ viol' = viol \o SetToSeq(vs)
                /\ UNCHANGED <<w, skip, seqno>>
         [] OTHER -> UNCHANGED <<w, skip, viol, seqno>>

TSpec == TInit /\ [][TNext]_tvars

\* All lines consumed: print the verdict (one line of JSON) exactly once.
Done == l = Len(Trace) + 1 => PrintT("VERDICT " \o ToJson([lines |-> Len(Trace), seqs |-> seqno, viol |-> viol]))

=============================================================================
