------------------------------ MODULE ArkTrace ------------------------------
(***************************************************************************)
(* The acceptor: a total, non-halting monitor over layer A (ArkWorld) for  *)
(* ndjson logs recorded from executions of the real ecs.World.             *)
(*                                                                         *)
(* One TLC state per log line.  For every "op" event the monitor evaluates *)
(* the precondition of the operation in its own world `w`, advances `w`    *)
(* with ArkWorld's effect operator, binding what A leaves open (the handle *)
(* issued, values written inside callbacks) to the logged values, and      *)
(* compares the outcome (panic / no panic, returned handles, callbacks)    *)
(* and the logged projection of the real world with its own state.  Every  *)
(* disagreement is appended to `viol` with the class (and so the property) *)
(* it belongs to; the rest of that sequence is skipped up to the next      *)
(* "reset" line.  When the last line is consumed `viol` is printed as JSON.*)
(***************************************************************************)
EXTENDS ArkWorld, Json, IOUtils

Trace == ndJsonDeserialize(IOEnv.TRACE_FILE)

VARIABLES rg,     \* registry history (C18): [types: Seq(token), res: set of tokens, locked]
          l,      \* next line
          w,      \* the layer-A world
          skip,   \* skipping to the next reset after a disagreement / undefined op
          viol,   \* violations found so far
          seqno   \* number of the current sequence (reset events seen)

tvars == <<l, w, skip, viol, seqno, rg>>

V(cls, d) == [l |-> l, seq |-> seqno, cls |-> cls, d |-> ToString(d)]

FltOf(j) == [with |-> SetOf(j.with), without |-> SetOf(j.without), excl |-> j.excl, ft |-> Fn(j.ft), qt |-> Fn(j.qt)]

\* The logged projection as a layer-A entity map
LoggedEnt(st) ==
    [h \in {st.ents[i].e : i \in DOMAIN st.ents} |->
        LET r == st.ents[CHOOSE i \in DOMAIN st.ents : st.ents[i].e = h] IN
        [c |-> SetOf(r.c), v |-> Fn(r.v), t |-> Fn(r.t)]]

RelTouched(ev) == (SetOf(ev.add) \cup SetOf(ev.rem)) \cap w.rel # {} \/ DOMAIN Fn(ev.tg) # {}
                  \/ ev.op \in {"SetRel", "SetRelBatch", "Kill", "KillBatch"}

(***************************************************************************)
(* Expected outcome of an operation event: [def, pre, w2, foot]            *)
(*   def  : A defines the outcome (otherwise the sequence is abandoned)    *)
(*   pre  : the precondition holds (otherwise: panic, nothing changes)     *)
(*   w2   : the world after a successful call                              *)
(*   foot : the entities the operation is allowed to change                *)
(***************************************************************************)
BVals(ev, S, C) ==
    IF ev.mode = "val" THEN [x \in S |-> RestrictTo(Fn(ev.vals), C)] ELSE
    [x \in S |-> IF \E i \in DOMAIN ev.bvals : ev.bvals[i].e = x
                 THEN Fn(ev.bvals[CHOOSE i \in DOMAIN ev.bvals : ev.bvals[i].e = x].v)
                 ELSE [c \in C |-> 0]]

Expect(ev) ==
    LET add == SetOf(ev.add) rem == SetOf(ev.rem) e == ev.e flt == FltOf(ev.flt) etg == Fn(ev.tg) evals == Fn(ev.vals)
        S == IF FilterOK(w, flt) THEN Select(w, flt) ELSE {}
        isB == ev.op \in {"AddBatch", "RemoveBatch", "ExchangeBatch", "SetRelBatch", "KillBatch"}
        \* a batch with an empty selection and invalid arguments: the properties do not say whether it panics
        R(pre, w2, foot) == [def |-> ~(isB /\ ~pre /\ S = {} /\ ~Locked(w)), pre |-> pre, w2 |-> w2, foot |-> foot]
    IN
    CASE ev.op = "New" ->
            IF PreNew(w, add, etg) /\ ~ev.panic
            THEN R(TRUE, DoNew(w, ev.ret[1], add, evals, etg), {ev.ret[1]})
            ELSE R(PreNew(w, add, etg), w, {})
      [] ev.op = "NewBatch" ->
            IF PreNew(w, add, etg) /\ ~ev.panic
            THEN LET RECURSIVE Go(_, _)
                     Go(ww, i) == IF i > Len(ev.ret) THEN ww
                                  ELSE Go(DoNew(ww, ev.ret[i], add, BVals(ev, {ev.ret[i]}, add)[ev.ret[i]], etg), i + 1)
                 IN R(TRUE, Go(w, 1), SetOf(ev.ret))
            ELSE R(PreNew(w, add, etg), w, {})
      [] ev.op = "Copy" ->
            IF PreCopy(w, e) /\ ~ev.panic
            THEN R(TRUE, DoCopy(w, ev.ret[1], e), {ev.ret[1]})
            ELSE R(PreCopy(w, e), w, {})
      [] ev.op = "Add" ->
            IF PreAdd(w, e, add, etg) THEN R(TRUE, DoAdd(w, e, add, evals, etg), {e}) ELSE R(FALSE, w, {})
      [] ev.op = "Remove" ->
            IF PreRemove(w, e, rem) THEN R(TRUE, DoRemove(w, e, rem), {e}) ELSE R(FALSE, w, {})
      [] ev.op = "Exchange" ->
            IF PreExchange(w, e, add, rem, etg)
            THEN R(TRUE, DoExchange(w, e, add, rem, evals, etg), {e}) ELSE R(FALSE, w, {})
      [] ev.op = "Set" ->
            IF PreSet(w, e, add) THEN R(TRUE, DoSet(w, e, evals), {e}) ELSE R(FALSE, w, {})
      [] ev.op = "SetRel" ->
            IF PreSetRel(w, e, etg) THEN R(TRUE, DoSetRel(w, e, etg), {e}) ELSE R(FALSE, w, {})
      [] ev.op = "Read" ->   \* checked read access (Get / Has / GetRelation / IDs): only dead handles are probed
            IF IsAlive(w, e) THEN [def |-> FALSE, pre |-> TRUE, w2 |-> w, foot |-> {}] ELSE R(FALSE, w, {})
      [] ev.op = "Kill" ->
            IF PreKill(w, e) THEN R(TRUE, DoKill(w, e), {e}) ELSE R(FALSE, w, {})
      [] ev.op = "AddBatch" ->
            IF PreAddBatch(w, flt, add, etg)
            THEN R(TRUE, DoExchangeBatch(w, S, add, {}, BVals(ev, S, add), etg), S) ELSE R(FALSE, w, {})
      [] ev.op = "RemoveBatch" ->
            IF PreRemoveBatch(w, flt, rem)
            THEN R(TRUE, DoExchangeBatch(w, S, {}, rem, [x \in S |-> EmptyFn], EmptyFn), S) ELSE R(FALSE, w, {})
      [] ev.op = "ExchangeBatch" ->
            IF PreExchangeBatch(w, flt, add, rem, etg)
            THEN R(TRUE, DoExchangeBatch(w, S, add, rem, BVals(ev, S, add), etg), S) ELSE R(FALSE, w, {})
      [] ev.op = "SetRelBatch" ->
            IF PreSetRelBatch(w, flt, etg) THEN R(TRUE, DoSetRelBatch(w, S, etg), S) ELSE R(FALSE, w, {})
      [] ev.op = "KillBatch" ->
            IF PreKillBatch(w, flt) THEN R(TRUE, DoKillSet(w, S), S) ELSE R(FALSE, w, {})
      [] ev.op = "RegF" ->
            IF ev.f \notin DOMAIN w.regF THEN R(TRUE, DoRegF(w, ev.f, flt), {}) ELSE R(FALSE, w, {})
      [] ev.op = "UnregF" ->
            IF ev.f \in DOMAIN w.regF THEN R(TRUE, DoUnregF(w, ev.f), {}) ELSE R(FALSE, w, {})
      [] ev.op = "DumpLoad" ->   \* dump, load into a second world, then ev.n creations (no components) in both worlds
            IF Locked(w) THEN [def |-> FALSE, pre |-> TRUE, w2 |-> w, foot |-> {}]
            ELSE IF ev.panic THEN R(TRUE, w, {})
            ELSE LET RECURSIVE Go(_, _)
                     Go(ww, i) == IF i > Len(ev.ret) THEN ww ELSE Go(DoNew(ww, ev.ret[i], {}, EmptyFn, EmptyFn), i + 1)
                 IN R(TRUE, Go(w, 1), SetOf(ev.ret))
      [] ev.op = "QOpen" ->
            IF ev.q \in DOMAIN w.open \/ ~FilterOK(w, flt) \/ Cardinality(DOMAIN w.open) >= 63
            THEN [def |-> FALSE, pre |-> TRUE, w2 |-> w, foot |-> {}]
            ELSE IF ~TargetsOK(w, FltTargets(flt))
            THEN (IF ev.mode = "typed" /\ ~TargetsOK(w, flt.qt)
                  THEN R(FALSE, w, {})     \* a removed entity named as per-query target: rejected, nothing changes
                  \* a long-lived filter whose fixed target died after it was built, or the ID-based API: the call may be
                  \* rejected; if it is accepted the query selects nothing (no alive entity has a dead target: C03, C04)
                  ELSE R(~ev.panic, DoQOpen(w, ev.q, flt), {}))
            ELSE R(TRUE, DoQOpen(w, ev.q, flt), {})
      [] ev.op = "QNext" ->
            IF ev.q \notin DOMAIN w.open THEN [def |-> FALSE, pre |-> TRUE, w2 |-> w, foot |-> {}]
            ELSE IF ev.ok THEN R(TRUE, DoQYield(w, ev.q, ev.res.e), {}) ELSE R(TRUE, DoQClose(w, ev.q), {})
      [] ev.op = "QClose" ->
            R(TRUE, IF ev.q \in DOMAIN w.open THEN DoQClose(w, ev.q) ELSE w, {})
      [] ev.op = "RegO" ->
            LET o == [ev |-> ev.obs.ev, obs |-> SetOf(ev.obs.obs), with |-> SetOf(ev.obs.with),
                      without |-> SetOf(ev.obs.without), excl |-> ev.obs.excl] IN
            IF ev.o \in DOMAIN w.obs \/ (o.ev \in {"OnAddRelations", "OnRemoveRelations"} /\ ~(o.obs \subseteq w.rel))
            THEN [def |-> FALSE, pre |-> TRUE, w2 |-> w, foot |-> {}]
            ELSE R(TRUE, DoRegO(w, ev.o, o), {})
      [] ev.op = "UnregO" ->
            IF ev.o \in DOMAIN w.obs THEN R(TRUE, DoUnregO(w, ev.o), {}) ELSE [def |-> FALSE, pre |-> TRUE, w2 |-> w, foot |-> {}]
      [] ev.op = "Emit" ->
            IF (e = Zero /\ add = {}) \/ (IsAlive(w, e) /\ add \subseteq CompsOf(w, e))
            THEN R(TRUE, w, {}) ELSE [def |-> FALSE, pre |-> TRUE, w2 |-> w, foot |-> {}]
      [] ev.op = "Shrink" ->
            \* (traced programs: a rejected call - e.g. two time limits - is not regulated by the properties)
            IF Locked(w) \/ (ev.mode = "trace" /\ ev.panic) THEN [def |-> FALSE, pre |-> TRUE, w2 |-> w, foot |-> {}] ELSE R(TRUE, w, {})
      [] ev.op = "Reset" ->
            IF PreReset(w) THEN R(TRUE, DoReset(w), {}) ELSE R(FALSE, w, {})
      \* resources (C18 / C16): ev.ev names the resource type; independent of the world lock
      [] ev.op = "ResAdd" ->
            IF PreResAdd(w, ev.ev) THEN R(TRUE, DoResAdd(w, ev.ev, Fn(ev.vals)[ev.ev]), {}) ELSE R(FALSE, w, {})
      [] ev.op = "ResRemove" ->
            IF PreResRemove(w, ev.ev) THEN R(TRUE, DoResRemove(w, ev.ev), {}) ELSE R(FALSE, w, {})
      [] ev.op = "ResSet" ->   \* a write through the pointer Get returns; Get of an absent resource is nil (not regulated)
            IF PreResSet(w, ev.ev) THEN R(TRUE, DoResSet(w, ev.ev, Fn(ev.vals)[ev.ev]), {}) ELSE [def |-> FALSE, pre |-> TRUE, w2 |-> w, foot |-> {}]
      [] ev.op = "RegType" ->
            IF PreRegType(w) THEN R(TRUE, DoRegType(w), {}) ELSE R(FALSE, w, {})
      [] ev.op = "TLock" ->   \* traced programs: the world lock taken / released by a query or a callback phase
            R(TRUE, [w EXCEPT !.cb = @ + 1], {})
      [] ev.op = "TUnlock" ->
            IF w.cb > 0 THEN R(TRUE, [w EXCEPT !.cb = @ - 1], {}) ELSE [def |-> FALSE, pre |-> TRUE, w2 |-> w, foot |-> {}]
      [] ev.op = "Load" ->    \* the world continues as the one its dump was loaded into
            IF PreLoad(w) THEN R(TRUE, DoLoad(w), Alive(w)) ELSE [def |-> FALSE, pre |-> TRUE, w2 |-> w, foot |-> {}]
      [] OTHER -> [def |-> FALSE, pre |-> TRUE, w2 |-> w, foot |-> {}]

(***************************************************************************)
(* Expected observer callbacks of a successful operation (C08).            *)
(***************************************************************************)
ExpCbs(ev, x) ==
    LET add == SetOf(ev.add) rem == SetOf(ev.rem) e == ev.e etg == Fn(ev.tg)
        S == x.foot
        U(f(_)) == UNION {f(y) : y \in S}
    IN
    CASE ev.op = "New" -> CbsNew(w, ev.ret[1], add, etg)
      [] ev.op = "NewBatch" -> UNION {CbsNew(w, ev.ret[i], add, etg) : i \in DOMAIN ev.ret}
      [] ev.op = "DumpLoad" -> UNION {CbsNew(w, ev.ret[i], {}, EmptyFn) : i \in DOMAIN ev.ret}
      [] ev.op = "Copy" -> CbsCopy(w, ev.ret[1], e)
      [] ev.op = "Add" -> CbsExchange(w, e, add, {}, etg)
      [] ev.op = "Remove" -> CbsExchange(w, e, {}, rem, EmptyFn)
      [] ev.op = "Exchange" -> CbsExchange(w, e, add, rem, etg)
      [] ev.op = "Set" -> IF ev.mode = "ptr" THEN {} ELSE CbsSet(w, e, add)
      [] ev.op = "SetRel" -> CbsSetRel(w, e, etg)
      [] ev.op = "Kill" -> CbsKill(w, e)
      [] ev.op \in {"AddBatch", "RemoveBatch", "ExchangeBatch"} ->
            LET f(y) == CbsExchange(w, y, add, rem, etg) IN U(f)
      [] ev.op = "SetRelBatch" -> LET f(y) == CbsSetRel(w, y, etg) IN U(f)
      [] ev.op = "KillBatch" -> LET f(y) == CbsKill(w, y) IN U(f)
      [] ev.op = "Emit" -> CbsEmit(w, ev.ev, add, e)
      [] OTHER -> {}

\* the world an observer callback of phase ph must see; `late`: the executor writes the values of added
\* components only after the call returned (ID-based API), so "post" callbacks still see zero values
CbWorld(ev, x, ph) ==
    IF ph = "pre" THEN w
    ELSE IF ev.late
         THEN [x.w2 EXCEPT !.ent = [h \in DOMAIN @ |->
                  IF h \in x.foot THEN [@[h] EXCEPT !.v = [c \in DOMAIN @ |-> IF c \in SetOf(ev.add) THEN 0 ELSE @[c]]]
                  ELSE @[h]]]
         ELSE x.w2

(***************************************************************************)
(* Comparison of one op event with the expectation: the set of violations. *)
(***************************************************************************)
CreatedBy(ev) == IF ev.op \in {"New", "NewBatch", "Copy", "DumpLoad"} /\ ~ev.panic THEN ev.ret ELSE <<>>

CheckOp(ev) ==
    LET x   == Expect(ev)
        exp == IF x.pre /\ ~ev.panic THEN x.w2 ELSE w
        got == LoggedEnt(ev.st)
        made == CreatedBy(ev)
        isBatch == ev.op \in {"AddBatch", "RemoveBatch", "ExchangeBatch", "SetRelBatch", "KillBatch"}
        isRes == ev.op \in {"ResAdd", "ResRemove", "ResSet"}
        lockMis == Locked(w) /\ ev.op \notin {"Set", "QOpen"} /\ ~isRes
        \* the resources present and their values (executions recorded through the hooks do not log them)
        vRes == IF "res" \in DOMAIN ev.st /\ Fn(ev.st.res) # exp.res
                THEN {V(IF ev.op = "Reset" THEN "C16.diverge" ELSE "C18.resource", <<ev.op, "resources", ev.st.res>>)}
                ELSE {}
        \* the component registry: the number of types registered, and which model components are relations
        rejected == ~x.pre \/ ev.panic
        vReg == (IF "ntypes" \in DOMAIN ev.st /\ ev.st.ntypes # exp.nreg
                 THEN {V(IF rejected THEN (IF lockMis THEN "C07.effect-after-panic" ELSE "C10.state-changed") ELSE "C18.id-consumed",
                         <<ev.op, "types", ev.st.ntypes>>)} ELSE {})
                \cup (IF "relc" \in DOMAIN ev.st /\ SetOf(ev.st.relc) # w.rel
                      THEN {V(IF rejected THEN (IF lockMis THEN "C07.effect-after-panic" ELSE "C10.state-changed") ELSE "C18.id-unstable",
                              <<ev.op, "relation components", ev.st.relc>>)} ELSE {})
        \* C18: a resource type always maps to the same id (also across Reset and for handles created earlier)
        vResId == IF "resid" \in DOMAIN ev.st /\ Fn(ev.st.resid) # Fn(ev.st.resid0)
                  THEN {V("C18.id-unstable", <<ev.op, "resource ids", ev.st.resid, ev.st.resid0>>)}
                       \cup (IF ev.op = "Reset" THEN {V("C16.diverge", <<"resource ids", ev.st.resid>>)} ELSE {})
                  ELSE {}
        vPanic ==
            IF x.pre /\ ev.panic
            THEN (IF ev.op \in {"QOpen", "QNext", "QClose", "DumpLoad"} THEN {}
                  ELSE IF ev.op = "Load" THEN {V("C17.load-panicked", ev.msg)}
                  ELSE IF isRes THEN {V("C18.resource", <<ev.op, ev.ev, "panicked">>)}
                  ELSE IF Locked(w) THEN {V("C07.read-failed", ev.op)}   \* allowed on a locked world, but failed
                  ELSE {V(IF RelTouched(ev) THEN "C04.valid-call-panicked" ELSE "C01.valid-call-panicked", ev.op)})
            ELSE IF ~x.pre /\ ~ev.panic
            THEN {V(IF isRes THEN "C18.resource" ELSE IF lockMis THEN "C07.structural-succeeded" ELSE "C10.accepted", <<ev.op, ev.ev>>)}
                 \* "... or changing a locked world always panics" is a clause of C10 as well
                 \cup (IF lockMis /\ ~isRes THEN {V("C10.accepted", <<ev.op, "on a locked world">>)} ELSE {})
            ELSE {}
        vDup == {V("C02.duplicate-handle", made[i]) : i \in {j \in DOMAIN made : made[j] \in w.issued}}
                \cup {V("C02.duplicate-handle", made[i]) :
                        i \in {j \in DOMAIN made : \E k \in DOMAIN made : k # j /\ made[k] = made[j]}}
        \* liveness of every handle ever issued
        shouldLive == DOMAIN exp.ent
        vAlive == {V("C02.alive-mismatch", h) : h \in {g \in SetOf(ev.st.alive) : g \notin shouldLive}}
                  \cup {V("C02.alive-mismatch", h) : h \in {g \in shouldLive : g \notin SetOf(ev.st.alive)}}
                  \cup {V("C02.alive-mismatch", h) : h \in {g \in SetOf(ev.st.dead) : g \in shouldLive}}
                  \cup (IF ev.op = "Load" /\ SetOf(ev.st.alive) # shouldLive THEN {V("C17.alive", ev.st.alive)} ELSE {})
        \* handles from before the last Reset: the Reset removed those entities; none is alive unless it was issued again
        \* since (or is the handle the world will issue next for that id: its predecessor was issued and removed since -
        \* a handle the world has not issued in this epoch, about which the properties are silent)
        vOld == IF "oldalive" \in DOMAIN ev.st
                THEN UNION {{V("C02.alive-mismatch", <<"alive after Reset", h>>)}
                            \cup (IF ev.op = "Reset" THEN {V("C16.diverge", <<"alive after Reset", h>>)} ELSE {})
                            : h \in {g \in SetOf(ev.st.oldalive) : g \notin shouldLive /\ <<g[1], g[2] - 1>> \notin exp.issued}}
                ELSE {}
        vCount == IF ev.st.used # Cardinality(shouldLive)
                  THEN {V(IF ~x.pre \/ ev.panic THEN (IF lockMis THEN "C07.effect-after-panic" ELSE "C10.state-changed")
                          ELSE "C02.count", ev.st.used)}
                       \cup (IF (~x.pre \/ ev.panic) /\ lockMis THEN {V("C10.state-changed", <<"locked world", ev.st.used>>)} ELSE {})
                  ELSE {}
        common == (DOMAIN got) \cap shouldLive
        Cls(h, kind) ==
            IF ~x.pre \/ ev.panic THEN (IF lockMis THEN "C07.effect-after-panic" ELSE "C10.state-changed")
            ELSE IF ev.op = "Shrink" THEN "C15.visible"
            ELSE IF ev.op = "Reset" THEN "C16.diverge"
            ELSE IF ev.op = "Load" THEN "C17.loaded-world"
            ELSE IF h \notin x.foot THEN (IF kind = "t" THEN "C04.target" ELSE IF isBatch THEN "C06.unselected" ELSE "C01.other-entity")
            ELSE IF isBatch THEN "C06.state"
            ELSE IF kind = "t" THEN "C04.target"
            ELSE IF kind = "c" THEN "C01.compset" ELSE "C01.value"
        \* C11: pointer-bearing components decode to a marker when their pointee data is wrong / left behind;
        \* a component added without an initial value must read as its zero value
        VCls(h) == IF \E c \in DOMAIN got[h].v : got[h].v[c] = -777 THEN "C11.pointee"
                   ELSE IF \E c \in DOMAIN got[h].v : got[h].v[c] = -778 THEN "C11.dirty"
                   ELSE IF ev.mode = "noinit" /\ h \in x.foot /\ x.pre /\ ~ev.panic THEN "C11.dirty"
                   ELSE Cls(h, "v")
        \* a wrong component set / value / target after a batch operation violates C06 and the property about
        \* the store itself (C01: "... their batch forms ..."; C04 for targets)
        \* a rejected change of a locked world that had an effect violates C07 and C10 ("changing a locked world always
        \* panics ... exactly as before the call"); a component created without a value that shows what another entity left
        \* behind holds a value no operation on it wrote (C11 and C01)
        Also(cls, kind) == IF cls = "C06.state" THEN {IF kind = "c" THEN "C01.compset" ELSE IF kind = "t" THEN "C04.target" ELSE "C01.value"}
                           ELSE IF cls = "C06.unselected" THEN {"C01.other-entity"}
                           ELSE IF cls = "C07.effect-after-panic" THEN {"C10.state-changed"}
                           ELSE IF cls = "C11.dirty" THEN {"C01.value"} ELSE {}
        VV(cls, kind, d) == {V(cls, d)} \cup {V(c2, d) : c2 \in Also(cls, kind)}
        vEnt == UNION {
                  (IF got[h].c # exp.ent[h].c THEN VV(Cls(h, "c"), "c", <<h, got[h].c>>) ELSE {})
                  \cup (IF got[h].c = exp.ent[h].c /\ got[h].v # exp.ent[h].v THEN VV(VCls(h), "v", <<h, got[h].v>>) ELSE {})
                  \cup (IF got[h].c = exp.ent[h].c /\ got[h].t # exp.ent[h].t THEN VV(Cls(h, "t"), "t", <<h, got[h].t>>) ELSE {})
                  : h \in common}
        vLock == IF ev.st.locked # Locked(exp)
                 THEN {V(IF ~x.pre \/ ev.panic THEN "C10.lock-state-changed" ELSE "C07.locked-mismatch", ev.st.locked)}
                      \* C07 as well: a rejected query / batch that leaves the world locked although no query is open
                      \cup (IF (~x.pre \/ ev.panic) /\ ev.st.locked /\ ~Locked(exp) THEN {V("C07.locked-no-query", ev.op)} ELSE {})
                 ELSE {}
        \* batch callbacks: exactly once per selected entity (C06)
        \* batch callbacks (C06): exactly once per entity the operation changes, at most once per other
        \* selected entity (a SetRelationsBatch that leaves an entity's targets unchanged need not call back),
        \* never for an entity that was not selected
        vCb == IF isBatch /\ x.pre /\ ~ev.panic /\ ev.mode = "fn"
               THEN LET es == [i \in DOMAIN ev.bvals |-> ev.bvals[i].e]
                        cnt(g) == Cardinality({i \in DOMAIN es : es[i] = g})
                        must == {g \in x.foot : ev.op # "SetRelBatch" \/ w.ent[g] # x.w2.ent[g]}
                    IN
                    {V("C06.callback-count", h) : h \in {g \in must : cnt(g) # 1}}
                    \cup {V("C06.callback-count", h) : h \in {g \in x.foot \ must : cnt(g) > 1}}
                    \cup {V("C06.callback-count", es[i]) : i \in {j \in DOMAIN es : es[j] \notin x.foot}}
               ELSE {}
        \* observers (C08: who fires; C09: what the callback sees)
        ok == x.pre /\ ~ev.panic
        want == IF ok THEN ExpCbs(ev, x) ELSE {}
        gotCb == [i \in DOMAIN ev.cbs |-> [o |-> ev.cbs[i].o, e |-> ev.cbs[i].e]]
        wantOE == {[o |-> c.o, e |-> c.e] : c \in want}
        vC08 == {V("C08.missing", c) : c \in {d \in wantOE : \A i \in DOMAIN gotCb : gotCb[i] # d}}
                \cup {V("C08.spurious", gotCb[i]) : i \in {j \in DOMAIN gotCb : gotCb[j] \notin wantOE}}
                \cup {V("C08.twice", gotCb[i]) : i \in {j \in DOMAIN gotCb : \E k \in DOMAIN gotCb : k < j /\ gotCb[k] = gotCb[j]}}
        PhOf(i) == IF \E c \in want : c.o = ev.cbs[i].o /\ c.e = ev.cbs[i].e
                   THEN (CHOOSE c \in want : c.o = ev.cbs[i].o /\ c.e = ev.cbs[i].e).ph ELSE "none"
        isBatchOp == isBatch \/ ev.op = "NewBatch"
        \* C09: the entity handed to a callback is one the operation affects
        affected == x.foot \cup SetOf(CreatedBy(ev)) \cup (IF ev.op = "Emit" THEN {ev.e} ELSE {})
        vWrongE == IF ok THEN {V("C09.wrong-entity", ev.cbs[i].e) : i \in {j \in DOMAIN ev.cbs : ev.cbs[j].e \notin affected}} ELSE {}
        \* ... and not another entity of the same operation in its place: an observer that is called twice for one
        \* entity while an entity it had to be called for is left out was handed the wrong entity
        dupl == {d \in wantOE : Cardinality({i \in DOMAIN gotCb : gotCb[i] = d}) > 1}
        left == {d \in wantOE : \A i \in DOMAIN gotCb : gotCb[i] # d}
        vSubst == IF ok THEN {V("C09.wrong-entity", <<"in place of", d.o, d.e>>) : d \in {m \in left : \E q \in dupl : q.o = m.o}} ELSE {}
        vC09 == vWrongE \cup vSubst \cup UNION {
                  LET cb == ev.cbs[i] ph == PhOf(i) cw == CbWorld(ev, x, ph) IN
                  IF ph = "none" \/ ev.op = "DumpLoad" THEN {}
                  ELSE (IF cb.panic THEN {V("C09.callback-panicked", cb.e)} ELSE {})
                       \cup (IF cb.e # Zero /\ ~cb.alive THEN {V("C09.not-alive", cb.e)} ELSE {})
                       \cup (IF cb.e # Zero /\ cb.seen # 1 THEN {V("C09.seen-n-times", <<cb.e, cb.seen>>)} ELSE {})
                       \cup (IF ~cb.panic /\ LoggedEnt([ents |-> cb.ents]) # cw.ent
                             THEN {V(IF ph = "pre" THEN "C09.pre-state" ELSE "C09.post-state", <<cb.o, cb.e>>)} ELSE {})
                       \cup (IF cb.locked # (IF ph = "pre" \/ isBatchOp THEN TRUE ELSE Locked(w))
                             THEN {V("C09.lock-state", <<cb.o, cb.e, cb.locked>>)} ELSE {})
                  : i \in DOMAIN ev.cbs}
        \* queries that stay open (C03: what Next yields; C07: closing is always harmless)
        vQ == IF ev.op = "QNext" /\ ev.q \in DOMAIN w.open /\ ~ev.panic
              THEN LET oq == w.open[ev.q] r == ev.res IN
                   IF ev.ok
                   THEN (IF r.e \notin oq.rem
                         THEN {V(IF r.e \in Select(w, oq.flt) THEN "C03.duplicate" ELSE "C03.extra", r.e)} ELSE {})
                        \cup (IF r.e \in Alive(w) /\ (\/ \E c \in DOMAIN r.v : c \notin DOMAIN w.ent[r.e].v \/ r.v[c] # w.ent[r.e].v[c]
                                                    \/ \E c \in DOMAIN r.t : c \notin DOMAIN w.ent[r.e].t \/ r.t[c] # w.ent[r.e].t[c]
                                                    \/ ~r.ptreq)
                              THEN {V("C03.data", r)} ELSE {})
                   ELSE {V("C03.missing", h) : h \in oq.rem}
              ELSE IF ev.op = "QNext" /\ ev.q \in DOMAIN w.open /\ ev.panic THEN {V("C03.query-panicked", ev.q)}
              ELSE IF ev.op = "QClose" /\ ev.panic THEN {V("C07.close-twice", ev.q)}
              ELSE IF ev.op = "QOpen" /\ ev.panic /\ x.def /\ x.pre THEN {V("C07.read-failed", ev.q)}
              ELSE {}
        \* C15: capacities after an unbounded Shrink (or a converged loop of bounded ones), convergence
        Pow2(n) == CHOOSE p \in {1, 2, 4, 8, 16, 32, 64, 128, 256, 512, 1024, 2048, 4096} : p >= n /\ (p = 1 \/ p \div 2 < n)
        vShr == IF ev.op = "Shrink" /\ ev.mode \in {"all", "loop"} /\ ~ev.panic /\ x.def
                THEN (IF ~ev.ok THEN {V(IF ev.mode = "loop" THEN "C15.no-convergence" ELSE "C15.work-left", ev.iters)} ELSE {})
                     \cup {V("C15.cap", ev.caps[i]) : i \in {j \in DOMAIN ev.caps :
                              LET tc == ev.caps[j] mx == IF tc.mincap > Pow2(tc.size) THEN tc.mincap ELSE Pow2(tc.size) IN
                              tc.cap < tc.size \/ (ev.ok /\ tc.cap > mx)}}
                ELSE {}
        \* C17: liveness of every handle in the loaded world, next handles, codecs
        vDump == IF ev.op = "DumpLoad" /\ x.def /\ ~ev.panic
                 THEN (IF SetOf(ev.alive2) # Alive(w) THEN {V("C17.alive", ev.alive2)} ELSE {})
                      \cup (IF ev.ret # ev.ret2 THEN {V("C17.next-handle", <<ev.ret, ev.ret2>>)} ELSE {})
                      \* the same dump loaded a second time, after the first loaded world went on living
                      \cup (IF SetOf(ev.alive3) # Alive(w) THEN {V("C17.alive", <<"second load", ev.alive3>>)} ELSE {})
                      \cup (IF ev.ret # ev.ret3 THEN {V("C17.next-handle", <<"second load", ev.ret, ev.ret3>>)} ELSE {})
                      \cup {V("C17.codec", ev.codec[i]) : i \in {j \in DOMAIN ev.codec :
                                ev.codec[j][2] # ev.codec[j][1] \/ ev.codec[j][3] # ev.codec[j][1]}}
                      \cup (IF ev.binok # <<8, 108>> THEN {V("C17.malformed-accepted", ev.binok)} ELSE {})
                      \* the loaded worlds report as many entities as are alive (C02), and are ordinary worlds:
                      \* reset, they hand out the handles of a fresh world and the zero entity is not alive
                      \cup (IF ev.used2 # Cardinality(Alive(w)) THEN {V("C02.count", <<"loaded world", ev.used2>>), V("C17.count", ev.used2)} ELSE {})
                      \cup (IF ev.used3 # Cardinality(Alive(w)) THEN {V("C02.count", <<"second load", ev.used3>>), V("C17.count", ev.used3)} ELSE {})
                      \cup (IF ev.ret4 # ev.fresh4 THEN {V("C02.handle-after-reset", ev.ret4), V("C16.diverge", <<"loaded world", ev.ret4>>)} ELSE {})
                      \cup (IF ev.zeroalive THEN {V("C02.zero-alive", ev.ret4)} ELSE {})
                      \cup (IF ev.used4 # Len(ev.ret4) THEN {V("C02.count", <<"loaded world after reset", ev.used4>>)} ELSE {})
                 ELSE IF ev.op = "DumpLoad" /\ x.def /\ ev.panic THEN {V("C17.load-panicked", ev.msg)}
                 ELSE {}
    IN \* a creation that does not panic returns exactly one handle the world had not issued before (traced programs: the
       \* handles that became alive; a creation that hands out the reserved zero entity shows none)
       IF ev.op \in {"New", "Copy"} /\ ~ev.panic /\ Len(ev.ret) # 1
       THEN [def |-> TRUE, next |-> w, vs |-> {V("C02.no-new-handle", <<ev.op, ev.ret>>)}]
       ELSE
       [def |-> x.def, next |-> exp,
        vs |-> IF x.def THEN vPanic \cup vDup \cup vAlive \cup vCount \cup vEnt \cup vLock \cup vCb \cup vC08 \cup vC09 \cup vQ \cup vShr \cup vDump \cup vRes \cup vReg \cup vOld \cup vResId ELSE {}]

(***************************************************************************)
(* Probes: a query / Count / EntityAt battery run by the executor.         *)
(***************************************************************************)
Bag(seq) == [x \in SetOf(seq) |-> Cardinality({i \in DOMAIN seq : seq[i] = x})]

CheckProbe(ev) ==
    LET flt == FltOf(ev.flt)
        S   == Select(w, flt)
        vis == ev.visited
        es  == [i \in DOMAIN vis |-> vis[i].e]
        \* C03: every query (registered or not) yields exactly the selection, once each, with the entity's data
        vMissing == {V("C03.missing", h) : h \in {g \in S : \A i \in DOMAIN es : es[i] # g}}
        vExtra   == {V("C03.extra", es[i]) : i \in {j \in DOMAIN es : es[j] \notin S}}
        vDupl    == {V("C03.duplicate", es[i]) : i \in {j \in DOMAIN es : \E k \in DOMAIN es : k < j /\ es[k] = es[j]}}
        vData    == {V("C03.data", vis[i]) : i \in {j \in DOMAIN vis :
                        /\ vis[j].e \in S
                        /\ \/ \E c \in DOMAIN vis[j].v : vis[j].v[c] # w.ent[vis[j].e].v[c]
                           \/ \E c \in DOMAIN vis[j].t : vis[j].t[c] # w.ent[vis[j].e].t[c]
                           \/ ~vis[j].ptreq}}
        vCount   == IF ev.count # Cardinality(S) THEN {V("C03.count", ev.count)} ELSE {}
        vAt      == IF ev.at # es /\ Len(es) = Cardinality(S) THEN {V("C03.entityAt", ev.at)} ELSE {}
        vPanic   == IF ev.panic THEN {V("C03.query-panicked", ev.flt)} ELSE {}
        \* C05 (differential): a registered filter and an identical unregistered one are indistinguishable
        vTwin    == IF ev.f = 0 THEN {}
                    ELSE (IF Bag(es) # Bag(ev.twin_visited) THEN {V("C05.diverge", <<es, ev.twin_visited>>)} ELSE {})
                         \cup (IF ev.count # ev.twin_count THEN {V("C05.count", <<ev.count, ev.twin_count>>)} ELSE {})
                         \cup (IF Bag(ev.at) # Bag(ev.twin_at) THEN {V("C05.entityAt", <<ev.at, ev.twin_at>>)} ELSE {})
                         \cup (IF ev.panic # ev.twin_panic THEN {V("C05.panic-differs", ev.panic)} ELSE {})
        \* C13: probes recorded by concurrently running goroutines; Count = -1: closed without iterating
        concV == IF ev.count = -1 THEN (IF ev.panic THEN {V("C13.result", "panic")} ELSE {})
                 ELSE {[v EXCEPT !.cls = "C13.result"] : v \in vMissing \cup vExtra \cup vDupl \cup vData \cup vCount \cup vPanic}
                      \cup (IF ev.at # <<>> /\ Bag(ev.at) # Bag(es) THEN {V("C13.result", <<"EntityAt", ev.at>>)} ELSE {})
    IN IF ev.api = "conc-end" THEN (IF ev.count # 0 THEN {V("C13.locked", "world locked after all goroutines finished")} ELSE {})
       ELSE IF ~FilterOK(w, flt) THEN {}
       \* a filter naming a removed entity as target: rejected, or it selects nothing - never the entities related to
       \* whatever lives under the recycled id now (S = {}: no alive entity has a dead target)
       ELSE IF ~TargetsOK(w, FltTargets(flt))
            THEN (IF ev.api \in {"conc", "conc-end"} \/ ev.panic THEN {} ELSE vExtra \cup vCount)
       ELSE IF ev.api = "conc" THEN concV
       ELSE vMissing \cup vExtra \cup vDupl \cup vData \cup vCount \cup vAt \cup vPanic \cup vTwin

(***************************************************************************)
(* Statistics (C19): the algebra of one Stats() record against the world   *)
(* of the specification, and equality with the statistics of a twin world  *)
(* that replayed the same history and was asked only once.                 *)
(***************************************************************************)
RECURSIVE SumSeq(_)
SumSeq(q) == IF q = <<>> THEN 0 ELSE Head(q) + SumSeq(Tail(q))

CheckStats(ev) ==
    LET s == ev.stats
        A == s.Archs
        sizes == Fn(s.Sizes)
        aliveWith(C) == Cardinality({e \in Alive(w) : CompsOf(w, e) = C})
        mpe(C) == 8 + SumSeq([i \in 1..Len(C) |-> IF C[i] \in DOMAIN sizes THEN sizes[C[i]] ELSE 0])
        T(i) == A[i].tables
        bad == {<<"used", s.Used>> : x \in {1} \cap (IF s.Used = Cardinality(Alive(w)) THEN {} ELSE {1})}
            \cup {<<"total", s.Total>> : x \in {1} \cap (IF s.Total = s.Used + s.Recycled /\ s.Total <= s.Capacity THEN {} ELSE {1})}
            \cup {<<"sum-arch-size", SumSeq([i \in DOMAIN A |-> A[i].size])>> :
                     x \in {1} \cap (IF SumSeq([i \in DOMAIN A |-> A[i].size]) = s.Used THEN {} ELSE {1})}
            \cup {<<"arch-size", i>> : i \in {j \in DOMAIN A : A[j].size # SumSeq([k \in DOMAIN T(j) |-> T(j)[k][1]])}}
            \cup {<<"arch-vs-world", i>> : i \in {j \in DOMAIN A : A[j].size # aliveWith(SetOf(A[j].comps))}}
            \cup {<<"duplicate-archetype", i>> : i \in {j \in DOMAIN A : \E k \in DOMAIN A : k < j /\ SetOf(A[k].comps) = SetOf(A[j].comps)}}
            \cup {<<"missing-archetype", C>> : C \in {CompsOf(w, e) : e \in Alive(w)} \ {SetOf(A[j].comps) : j \in DOMAIN A}}
            \cup {<<"table-size-cap", i>> : i \in {j \in DOMAIN A : \E k \in DOMAIN T(j) : T(j)[k][1] > T(j)[k][2]}}
            \cup {<<"arch-capacity", i>> : i \in {j \in DOMAIN A :
                     LET c == SumSeq([k \in DOMAIN T(j) |-> T(j)[k][2]]) IN
                     A[j].capacity < c \/ (A[j].freetables = 0 /\ A[j].capacity # c)}}
            \cup {<<"mem-per-entity", i>> : i \in {j \in DOMAIN A : A[j].mpe # mpe(A[j].comps)}}
            \cup {<<"table-memory", i>> : i \in {j \in DOMAIN A : \E k \in DOMAIN T(j) :
                     T(j)[k][3] # T(j)[k][2] * A[j].mpe \/ T(j)[k][4] # T(j)[k][1] * A[j].mpe}}
            \cup {<<"arch-memory", i>> : i \in {j \in DOMAIN A :
                     \/ A[j].memoryused # SumSeq([k \in DOMAIN T(j) |-> T(j)[k][4]])
                     \/ A[j].memory # A[j].capacity * A[j].mpe}}
            \cup {<<"numrel", i>> : i \in {j \in DOMAIN A : A[j].numrel # Cardinality(SetOf(A[j].comps) \cap w.rel)}}
            \cup {<<"world-memory-used", s.MemoryUsed>> : x \in {1} \cap
                     (IF s.MemoryUsed = 16 * s.Used + SumSeq([i \in DOMAIN A |-> A[i].memoryused]) THEN {} ELSE {1})}
            \cup {<<"world-memory", s.Memory>> : x \in {1} \cap
                     (IF s.Memory >= 16 * s.Total + SumSeq([i \in DOMAIN A |-> A[i].memory]) THEN {} ELSE {1})}
            \cup {<<"filters", s.CachedFilters>> : x \in {1} \cap (IF s.CachedFilters = Cardinality(DOMAIN w.regF) THEN {} ELSE {1})}
            \cup {<<"observers", s.Observers>> : x \in {1} \cap (IF s.Observers = Cardinality(DOMAIN w.obs) THEN {} ELSE {1})}
            \cup {<<"locked", s.Locked>> : x \in {1} \cap (IF s.Locked = Locked(w) THEN {} ELSE {1})}
    IN {V("C19.algebra", b) : b \in bad}
       \cup (IF ev.stats # ev.twin THEN {V("C19.incremental", <<"incremental and one-shot statistics differ">>)} ELSE {})

(***************************************************************************)
(* Type registries and resources (C18): one "reg" event per step.          *)
(***************************************************************************)
RegStep(ev) ==
    LET known == \E i \in DOMAIN rg.types : rg.types[i] = ev.t
        idx == CHOOSE i \in DOMAIN rg.types : rg.types[i] = ev.t
        n == Len(rg.types)
        R(vs, nrg) == [vs |-> vs, rg |-> nrg]
    IN
    CASE ev.op = "Lock" -> R({}, [rg EXCEPT !.locked = TRUE])
      [] ev.op = "Unlock" -> R({}, [rg EXCEPT !.locked = FALSE])
      [] ev.op = "RegType" ->
            IF known
            THEN R((IF ev.panic \/ ev.id # idx - 1 THEN {V("C18.id-unstable", <<ev.t, ev.id, idx - 1>>)} ELSE {})
                   \cup (IF ev.count # n THEN {V("C18.id-consumed", ev.count)} ELSE {}), rg)
            ELSE IF n >= ev.max
            THEN R((IF ~ev.panic THEN {V("C18.limit", <<ev.t, ev.id>>)} ELSE {})
                   \cup (IF ev.count # n THEN {V("C18.id-consumed", ev.count)} ELSE {}), rg)
            ELSE IF rg.locked
            THEN R((IF ~ev.panic THEN {V("C18.locked-registration", <<ev.t, ev.id>>)} ELSE {})
                   \cup (IF ev.count # n THEN {V("C18.id-consumed", ev.count)} ELSE {}), rg)
            ELSE R((IF ev.panic THEN {V("C18.capacity-unusable", <<"registration", n + 1, ev.msg>>)}
                    ELSE IF ev.id # n THEN {V("C18.id-unstable", <<ev.t, ev.id, n>>)} ELSE {})
                   \cup (IF ~ev.panic /\ ev.count # n + 1 THEN {V("C18.id-consumed", ev.count)} ELSE {}),
                   IF ev.panic THEN rg ELSE [rg EXCEPT !.types = Append(@, ev.t)])
      [] ev.op = "Use" ->   \* registered types are usable in entities, filters and queries
            R(IF ev.panic \/ ~ev.ok THEN {V("C18.capacity-unusable", <<ev.ids, ev.msg>>)} ELSE {}, rg)
      [] ev.op = "ResAdd" ->
            R(IF ev.panic # (ev.t \in rg.res) THEN {V("C18.resource", <<"add", ev.t, ev.panic>>)} ELSE {},
              IF ev.panic THEN rg ELSE [rg EXCEPT !.res = @ \cup {ev.t}])
      [] ev.op = "ResRemove" ->
            R(IF ev.panic # (ev.t \notin rg.res) THEN {V("C18.resource", <<"remove", ev.t, ev.panic>>)} ELSE {},
              IF ev.panic THEN rg ELSE [rg EXCEPT !.res = @ \ {ev.t}])
      [] ev.op \in {"ResHas", "ResGet"} ->
            R(IF ev.panic \/ ev.ok # (ev.t \in rg.res) THEN {V("C18.resource", <<ev.op, ev.t, ev.ok>>)} ELSE {}, rg)
      [] OTHER -> R({}, rg)

(***************************************************************************)
(* The monitor's state machine.                                            *)
(***************************************************************************)
RgInit == [types |-> <<>>, res |-> {}, locked |-> FALSE]
TInit == /\ l = 1 /\ w = NewWorld({}) /\ skip = TRUE /\ viol = <<>> /\ seqno = 0 /\ rg = RgInit

SetToSeq(S) == LET RECURSIVE G(_) G(T) == IF T = {} THEN <<>> ELSE LET x == CHOOSE y \in T : TRUE IN <<x>> \o G(T \ {x}) IN G(S)

TNext ==
    /\ l <= Len(Trace)
    /\ l' = l + 1
    /\ LET ev == Trace[l] IN
       CASE ev.k = "reset" ->
                /\ w' = NewWorld(SetOf(ev.rel)) /\ skip' = FALSE /\ seqno' = seqno + 1 /\ viol' = viol /\ rg' = RgInit
         [] ev.k = "op" /\ ~skip ->
                LET r == CheckOp(ev) IN
                /\ viol' = viol \o SetToSeq(r.vs)
                \* (a wrong IsLocked alone leaves the monitor's world usable: the history goes on, so that what a world
                \* that is wrongly unlocked then accepts is seen as well - C07.structural-succeeded, C10.accepted)
                /\ skip' = ((\E v \in r.vs : v.cls # "C07.locked-mismatch") \/ ~r.def)
                /\ w' = r.next
                /\ seqno' = seqno /\ rg' = rg
         [] ev.k = "probe" /\ ~skip ->
                LET vs == CheckProbe(ev) IN
                /\ viol' = viol \o SetToSeq(vs)
                /\ UNCHANGED <<w, skip, seqno, rg>>
         [] ev.k = "stats" /\ ~skip ->
                /\ viol' = viol \o SetToSeq(CheckStats(ev))
                /\ UNCHANGED <<w, skip, seqno, rg>>
         [] ev.k = "mem" /\ ~skip ->   \* C11: heap objects of pointer-bearing components after forced garbage collections
                LET lost == SetOf(ev.final) \cap SetOf(ev.refd)
                    kept == (SetOf(ev.alloc) \ SetOf(ev.refd)) \ SetOf(ev.final)
                IN /\ viol' = viol \o SetToSeq({V("C11.lost", s) : s \in lost} \cup {V("C11.retained", s) : s \in kept})
                   /\ UNCHANGED <<w, skip, seqno, rg>>
         [] ev.k = "broken" /\ ~skip ->   \* the world could not even be read through valid calls of the public API
                /\ viol' = Append(viol, V("ANY.world-unreadable", <<ev.where, ev.msg>>))
                /\ skip' = TRUE
                /\ UNCHANGED <<w, seqno, rg>>
         \* traces recorded from arbitrary programs through the hooks of the library (build tag verif):
         [] ev.k = "relset" /\ ~skip ->      \* relation components registered so far
                /\ w' = [w EXCEPT !.rel = SetOf(ev.rel)] /\ UNCHANGED <<skip, viol, seqno, rg>>
         [] ev.k = "abandon" ->               \* the tracer stopped following this world
                /\ skip' = TRUE /\ UNCHANGED <<w, viol, seqno, rg>>
         [] ev.k = "adopt" /\ ~skip ->        \* a state the history does not determine (a dump loaded into this world)
                /\ w' = [w EXCEPT !.ent = LoggedEnt(ev.st), !.issued = SetOf(ev.st.alive) \cup SetOf(ev.st.dead),
                                  !.open = EmptyFn, !.cb = IF ev.st.locked THEN 1 ELSE 0]
                /\ UNCHANGED <<skip, viol, seqno, rg>>
         [] ev.k = "reg" ->
                LET r == RegStep(ev) IN
                /\ viol' = viol \o SetToSeq(r.vs)
                /\ rg' = r.rg
                /\ UNCHANGED <<w, skip, seqno>>
         [] OTHER -> UNCHANGED <<w, skip, viol, seqno, rg>>

TSpec == TInit /\ [][TNext]_tvars

\* All lines consumed: print the verdict (one line of JSON) exactly once.
Done == l = Len(Trace) + 1 => PrintT("VERDICT " \o ToJson([lines |-> Len(Trace), seqs |-> seqno, viol |-> viol]))

=============================================================================
