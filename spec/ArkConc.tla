------------------------------- MODULE ArkConc -------------------------------
(***************************************************************************)
(* C13: several goroutines create, iterate and close queries at the same   *)
(* time, sharing one filter.  The steps are the shared-memory accesses of  *)
(* FilterN.Query (filter_gen.go) and lock.go:                              *)
(*   - the rare-component hint of the filter (generation, rareComp),       *)
(*     refreshed under filter.mutex when the registry version changed;     *)
(*   - the world lock: bit pool and lock mask under lock.mu                *)
(*     (LockSafe / UnlockSafe).                                            *)
(* The model carries FastTrack-style vector clocks: one per goroutine, one *)
(* per mutex (clock of the last release), and per memory location the      *)
(* clock of the last write and of the last read of every goroutine.  A     *)
(* data race is a pair of conflicting accesses not ordered by happens-     *)
(* before.  Invariants: NoRace, distinct lock bits for overlapping         *)
(* queries, all bits released at the end.                                  *)
(***************************************************************************)
EXTENDS Integers, Sequences, FiniteSets, TLC

CONSTANTS G,          \* goroutines, e.g. {1, 2}
          MaxBits,    \* lock bits
          HintUnderMutex  \* TRUE: the hint is read and refreshed under filter.mutex (repaired code);
                          \* FALSE: generation / rareComp are read outside the mutex (pinned tree)

VARIABLES pc,      \* program counter per goroutine
          vc,      \* vector clock per goroutine
          mu,      \* per mutex: [held: goroutine or 0, rel: vector clock of the last release]
          locW,    \* per location: vector clock of the last write (zero clock if none) and its writer
          locR,    \* per location: per goroutine, its clock component at its last read
          hint,    \* filter.generation = registry.version ?
          bits,    \* lock state: set of bits in use
          mybit,   \* bit held per goroutine (-1: none)
          race     \* a race was observed

cvars == <<pc, vc, mu, locW, locR, hint, bits, mybit, race>>

Locs == {"gen", "rare", "lock"}
Mutexes == {"fmu", "lmu"}
Zero == [g \in G |-> 0]

Leq(a, b) == \A g \in G : a[g] <= b[g]
Join(a, b) == [g \in G |-> IF a[g] >= b[g] THEN a[g] ELSE b[g]]
Tick(g, c) == [c EXCEPT ![g] = @ + 1]

Init ==
    /\ pc = [g \in G |-> "start"]
    /\ vc = [g \in G |-> [h \in G |-> IF h = g THEN 1 ELSE 0]]
    /\ mu = [m \in Mutexes |-> [held |-> 0, rel |-> Zero]]
    /\ locW = [x \in Locs |-> [c |-> Zero, by |-> 0]]
    /\ locR = [x \in Locs |-> Zero]
    /\ hint = FALSE          \* first use: the hint is stale
    /\ bits = {} /\ mybit = [g \in G |-> -1] /\ race = FALSE

\* memory accesses with race detection
ReadRace(g, x)  == locW[x].by # 0 /\ locW[x].by # g /\ ~Leq(locW[x].c, vc[g])
WriteRace(g, x) == ReadRace(g, x) \/ \E h \in G \ {g} : locR[x][h] > vc[g][h]

Read(g, x) ==
    /\ race' = (race \/ ReadRace(g, x))
    /\ locR' = [locR EXCEPT ![x][g] = vc[g][g]]
    /\ UNCHANGED locW
Write(g, x) ==
    /\ race' = (race \/ WriteRace(g, x))
    /\ locW' = [locW EXCEPT ![x] = [c |-> vc[g], by |-> g]]
    /\ UNCHANGED locR

Acquire(g, m) ==
    /\ mu[m].held = 0
    /\ mu' = [mu EXCEPT ![m].held = g]
    /\ vc' = [vc EXCEPT ![g] = Join(@, mu[m].rel)]
Release(g, m) ==
    /\ mu[m].held = g
    /\ mu' = [mu EXCEPT ![m] = [held |-> 0, rel |-> vc[g]]]
    /\ vc' = [vc EXCEPT ![g] = Tick(g, @)]

Goto(g, l) == pc' = [pc EXCEPT ![g] = l]

(***************************************************************************)
(* FilterN.Query (filter_gen.go:128-168), one goroutine g.                 *)
(***************************************************************************)
\* pinned tree: `if f.generation != gen` outside the mutex
ReadGenUnsync(g) ==
    /\ ~HintUnderMutex /\ pc[g] = "start"
    /\ Read(g, "gen")
    /\ Goto(g, IF hint THEN "readRare" ELSE "lockHint")
    /\ UNCHANGED <<vc, mu, hint, bits, mybit>>
\* repaired: take the mutex first
LockHintFirst(g) ==
    /\ HintUnderMutex /\ pc[g] = "start"
    /\ Acquire(g, "fmu") /\ Goto(g, "checkGen")
    /\ UNCHANGED <<locW, locR, hint, bits, mybit, race>>
CheckGenLocked(g) ==
    /\ pc[g] = "checkGen"
    /\ Read(g, "gen")
    /\ Goto(g, IF hint THEN "readRareLocked" ELSE "writeRare")
    /\ UNCHANGED <<vc, mu, hint, bits, mybit>>
LockHint(g) ==
    /\ pc[g] = "lockHint"
    /\ Acquire(g, "fmu") /\ Goto(g, "writeRare")
    /\ UNCHANGED <<locW, locR, hint, bits, mybit, race>>
WriteRare(g) ==
    /\ pc[g] = "writeRare"
    /\ Write(g, "rare") /\ Goto(g, "writeGen")
    /\ UNCHANGED <<vc, mu, hint, bits, mybit>>
WriteGen(g) ==
    /\ pc[g] = "writeGen"
    /\ Write(g, "gen") /\ hint' = TRUE
    /\ Goto(g, IF HintUnderMutex THEN "readRareLocked" ELSE "unlockHint")
    /\ UNCHANGED <<vc, mu, bits, mybit>>
ReadRareLocked(g) ==
    /\ pc[g] = "readRareLocked"
    /\ Read(g, "rare") /\ Goto(g, "unlockHint")
    /\ UNCHANGED <<vc, mu, hint, bits, mybit>>
UnlockHint(g) ==
    /\ pc[g] = "unlockHint"
    /\ Release(g, "fmu") /\ Goto(g, IF HintUnderMutex THEN "lockWorld" ELSE "readRare")
    /\ UNCHANGED <<locW, locR, hint, bits, mybit, race>>
ReadRare(g) ==     \* `rareComp: f.rareComp` in the Query literal, outside the mutex
    /\ pc[g] = "readRare"
    /\ Read(g, "rare") /\ Goto(g, "lockWorld")
    /\ UNCHANGED <<vc, mu, hint, bits, mybit>>

(***************************************************************************)
(* lock.LockSafe / UnlockSafe                                              *)
(***************************************************************************)
LockWorld(g) ==
    /\ pc[g] = "lockWorld"
    /\ Acquire(g, "lmu") /\ Goto(g, "takeBit")
    /\ UNCHANGED <<locW, locR, hint, bits, mybit, race>>
TakeBit(g) ==
    /\ pc[g] = "takeBit"
    /\ Cardinality(bits) < MaxBits
    /\ Write(g, "lock")
    /\ LET b == CHOOSE b \in 0..(MaxBits - 1) : b \notin bits IN
       /\ bits' = bits \cup {b} /\ mybit' = [mybit EXCEPT ![g] = b]
    /\ Goto(g, "unlockWorld")
    /\ UNCHANGED <<vc, mu, hint>>
UnlockWorld(g) ==
    /\ pc[g] = "unlockWorld"
    /\ Release(g, "lmu") /\ Goto(g, "iterate")
    /\ UNCHANGED <<locW, locR, hint, bits, mybit, race>>
Iterate(g) ==      \* reads of tables only: no shared writes
    /\ pc[g] = "iterate"
    /\ Goto(g, "lockWorld2")
    /\ UNCHANGED <<vc, mu, locW, locR, hint, bits, mybit, race>>
LockWorld2(g) ==
    /\ pc[g] = "lockWorld2"
    /\ Acquire(g, "lmu") /\ Goto(g, "putBit")
    /\ UNCHANGED <<locW, locR, hint, bits, mybit, race>>
PutBit(g) ==
    /\ pc[g] = "putBit"
    /\ Write(g, "lock")
    /\ bits' = bits \ {mybit[g]} /\ mybit' = [mybit EXCEPT ![g] = -1]
    /\ Goto(g, "unlockWorld2")
    /\ UNCHANGED <<vc, mu, hint>>
UnlockWorld2(g) ==
    /\ pc[g] = "unlockWorld2"
    /\ Release(g, "lmu") /\ Goto(g, "done")
    /\ UNCHANGED <<locW, locR, hint, bits, mybit, race>>

Step(g) == \/ ReadGenUnsync(g) \/ LockHintFirst(g) \/ CheckGenLocked(g) \/ LockHint(g) \/ WriteRare(g) \/ WriteGen(g)
           \/ ReadRareLocked(g) \/ UnlockHint(g) \/ ReadRare(g)
           \/ LockWorld(g) \/ TakeBit(g) \/ UnlockWorld(g) \/ Iterate(g) \/ LockWorld2(g) \/ PutBit(g) \/ UnlockWorld2(g)

Next == \E g \in G : Step(g)
Spec == Init /\ [][Next]_cvars /\ WF_cvars(Next)

NoRace == ~race
HeldBitsDistinct == \A g, h \in G : (g # h /\ mybit[g] # -1) => mybit[g] # mybit[h]
BitsConsistent == bits = {mybit[g] : g \in {h \in G : mybit[h] # -1}}
AllReleased == (\A g \in G : pc[g] = "done") => bits = {}
Terminates == <>(\A g \in G : pc[g] = "done")

=============================================================================
