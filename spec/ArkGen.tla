------------------------------- MODULE ArkGen -------------------------------
(***************************************************************************)
(* The state machine over layer B (ArkStorage) with                        *)
(*   - a ghost layer-A world `gw` advanced by ArkWorld's operators with    *)
(*     the same operation (refinement: Abs(st) = gw is an invariant),      *)
(*   - `ords`: creation ordinal -> handle, and                             *)
(*   - `hist`: the API-level operation history with symbolic entity        *)
(*     references (ordinals), hidden from the state space by VIEW.         *)
(* The always-true action constraint Emit prints hist' for every generated *)
(* successor: one operation sequence per transition of the reachable state *)
(* graph.  These sequences are what is replayed on the real ecs.World.     *)
(***************************************************************************)
EXTENDS ArkStorage, Json

CONSTANTS MaxIds,      \* bound on the number of entity ids (pool size)
          MaxGen,      \* bound on generations
          MaxHist,     \* bound on the history length
          MaxTabs,     \* bound on the number of tables
          OpKinds,     \* enabled operation kinds
          NewSets,     \* component sets entities may be created with
          DeltaSets,   \* component sets that may be added / removed at once
          FilterCat,   \* catalogue of filter templates [with, without, excl, ftc, qtc]
          RegCat,      \* indices into FilterCat that may be registered
          ValMode,     \* "ord": values identify entity and component; "const": component only (fewer states)
          EmitPct,     \* percentage of the transitions whose history is emitted for replay (100 = all)
          EmitSeed,    \* selects which ones (deterministic checksum of the history)
          MaxOpen,     \* bound on simultaneously open queries
          ObsCat,      \* catalogue of observer specifications [ev, obs, with, without, excl]
          EmitMode,    \* "all": every transition (BFS); "last": only histories of full length (simulation)
          ResSet       \* resource types ("Res" in OpKinds): ResAdd / ResRemove / ResSet

VARIABLES st, gw, ords, hist

vars == <<st, gw, ords, hist>>
View == <<st, gw.obs>>

CompIdx(c) == CHOOSE i \in DOMAIN CompSeq : CompSeq[i] = c

Ord(h) == IF h = Zero THEN 0 ELSE CHOOSE i \in DOMAIN ords : ords[i] = h
AliveOrds == {i \in DOMAIN ords : ords[i] \in Alive(gw)}
TargetChoices == Alive(gw) \cup {Zero}

VBase(o) == IF ValMode = "ord" THEN 10 * o ELSE 0
InitVal(o, C)  == [c \in C |-> VBase(o) + CompIdx(c)]
SetVal(o, C)   == [c \in C |-> VBase(o) + CompIdx(c) + 5]
BatchVal(o, C) == [c \in C |-> VBase(o) + CompIdx(c) + 3]

OrdTg(tg) == [c \in DOMAIN tg |-> Ord(tg[c])]
CSeq(S) == SortComps(S)

NoFlt == [with |-> <<>>, without |-> <<>>, excl |-> FALSE, ft |-> EmptyFn, qt |-> EmptyFn]
FltJson(flt) == [with |-> CSeq(flt.with), without |-> CSeq(flt.without), excl |-> flt.excl,
                 ft |-> OrdTg(flt.ft), qt |-> OrdTg(flt.qt)]

NoObs == [ev |-> "", obs |-> <<>>, with |-> <<>>, without |-> <<>>, excl |-> FALSE]
Entry(op, e, add, rem, vals, tg, n, f, flt, mode) ==
    [op |-> op, e |-> e, add |-> CSeq(add), rem |-> CSeq(rem), vals |-> vals, tg |-> OrdTg(tg),
     n |-> n, f |-> f, flt |-> flt, mode |-> mode, o |-> 0, obs |-> NoObs, ev |-> ""]

Init ==
    /\ st = InitStorage
    /\ gw = NewWorld(RelSet)
    /\ ords = <<>>
    /\ hist = <<>>

Room == Len(hist) < MaxHist
CanCreate(n) == Len(st.pool) + n - st.pavail <= MaxIds

Step(s2, g2, o2, e) ==
    /\ st' = s2 /\ gw' = g2 /\ ords' = o2 /\ hist' = Append(hist, e)

TgFor(C) == [RelOf(gw, C) -> TargetChoices]

(***************************************************************************)
(* Filters from the catalogue, instantiated with targets.                  *)
(***************************************************************************)
InstFilters(k) ==
    LET f == FilterCat[k] IN
    {[with |-> f.with, without |-> f.without, excl |-> f.excl, ft |-> a, qt |-> b] :
        a \in [f.ftc -> TargetChoices], b \in [f.qtc -> TargetChoices]}

\* a batch uses either an unregistered filter (fid = 0) or a registered one (its ft is fixed)
RegBatchFilters ==
    UNION {{<<fid, [gw.regF[fid] EXCEPT !.qt = b]>> : b \in [FilterCat[fid].qtc -> TargetChoices]} : fid \in DOMAIN gw.regF}

AllBatchFilters == {<<0, flt>> : flt \in UNION {InstFilters(k) : k \in DOMAIN FilterCat}} \cup RegBatchFilters

(***************************************************************************)
(* Actions.                                                                *)
(***************************************************************************)
OpNew ==
    /\ "New" \in OpKinds /\ Room /\ CanCreate(1)
    /\ \E C \in NewSets : \E tg \in TgFor(C) :
         /\ PreNew(gw, C, tg)
         /\ LET h == PoolPeek(st) o == Len(ords) + 1 vals == InitVal(o, C) IN
            Step(WriteVals(BNew(st, C, tg), h, vals), DoNew(gw, h, C, vals, tg), Append(ords, h),
                 Entry("New", 0, C, {}, vals, tg, 1, 0, NoFlt, "val"))

OpNewNoInit ==
    /\ "NewNoInit" \in OpKinds /\ Room /\ CanCreate(1)
    /\ \E C \in NewSets \ {{}} : \E tg \in TgFor(C) :
         /\ PreNew(gw, C, tg)
         /\ LET h == PoolPeek(st) vals == [c \in C |-> 0] IN
            Step(BNew(st, C, tg), DoNew(gw, h, C, vals, tg), Append(ords, h),
                 Entry("New", 0, C, {}, vals, tg, 1, 0, NoFlt, "noinit"))

OpNewBatch ==
    /\ "NewBatch" \in OpKinds /\ Room /\ CanCreate(2)
    /\ \E C \in NewSets : \E tg \in TgFor(C) :
         /\ PreNew(gw, C, tg)
         /\ LET s1 == BNewBatch(st, 2, C, tg)
                h1 == PoolPeek(st)
                h2 == PoolPeek(PoolGet(st))
                o  == Len(ords) + 1
                s2 == WriteVals(WriteVals(s1, h1, BatchVal(o, C)), h2, BatchVal(o + 1, C))
                g1 == DoNew(gw, h1, C, BatchVal(o, C), tg)
                g2 == DoNew(g1, h2, C, BatchVal(o + 1, C), tg)
            IN Step(s2, g2, ords \o <<h1, h2>>, Entry("NewBatch", 0, C, {}, EmptyFn, tg, 2, 0, NoFlt, "fn"))

OpCopy ==
    /\ "Copy" \in OpKinds /\ Room /\ CanCreate(1)
    /\ \E e \in Alive(gw) :
         LET h == PoolPeek(st) IN
         Step(BCopy(st, e), DoCopy(gw, h, e), Append(ords, h),
              Entry("Copy", Ord(e), {}, {}, EmptyFn, EmptyFn, 1, 0, NoFlt, "val"))

OpAdd ==
    /\ "Add" \in OpKinds /\ Room
    /\ \E e \in Alive(gw) : \E C \in DeltaSets : \E tg \in TgFor(C) :
         /\ PreAdd(gw, e, C, tg)
         /\ LET vals == InitVal(Ord(e), C) IN
            Step(WriteVals(BExchange(st, e, C, {}, tg), e, vals), DoAdd(gw, e, C, vals, tg), ords,
                 Entry("Add", Ord(e), C, {}, vals, tg, 1, 0, NoFlt, "val"))

OpAddNoInit ==
    /\ "AddNoInit" \in OpKinds /\ Room
    /\ \E e \in Alive(gw) : \E C \in DeltaSets : \E tg \in TgFor(C) :
         /\ PreAdd(gw, e, C, tg)
         /\ LET vals == [c \in C |-> 0] IN
            Step(BExchange(st, e, C, {}, tg), DoAdd(gw, e, C, vals, tg), ords,
                 Entry("Add", Ord(e), C, {}, vals, tg, 1, 0, NoFlt, "noinit"))

OpRemove ==
    /\ "Remove" \in OpKinds /\ Room
    /\ \E e \in Alive(gw) : \E C \in DeltaSets :
         /\ PreRemove(gw, e, C)
         /\ Step(BExchange(st, e, {}, C, EmptyFn), DoRemove(gw, e, C), ords,
                 Entry("Remove", Ord(e), {}, C, EmptyFn, EmptyFn, 1, 0, NoFlt, "val"))

OpExchange ==
    /\ "Exchange" \in OpKinds /\ Room
    /\ \E e \in Alive(gw) : \E add \in DeltaSets : \E rem \in DeltaSets : \E tg \in TgFor(add) :
         /\ PreExchange(gw, e, add, rem, tg)
         /\ LET vals == InitVal(Ord(e), add) IN
            Step(WriteVals(BExchange(st, e, add, rem, tg), e, vals), DoExchange(gw, e, add, rem, vals, tg), ords,
                 Entry("Exchange", Ord(e), add, rem, vals, tg, 1, 0, NoFlt, "val"))

OpSet ==
    /\ "Set" \in OpKinds /\ Room
    /\ \E e \in Alive(gw) : \E c \in CompsOf(gw, e) :
         LET vals == SetVal(Ord(e), {c}) IN
         /\ gw.ent[e].v[c] # vals[c]
         /\ Step(WriteVals(st, e, vals), DoSet(gw, e, vals), ords,
                 Entry("Set", Ord(e), {c}, {}, vals, EmptyFn, 1, 0, NoFlt, "val"))

OpSetRel ==
    /\ "SetRel" \in OpKinds /\ Room
    /\ \E e \in Alive(gw) : \E c \in RelOf(gw, CompsOf(gw, e)) : \E t \in TargetChoices :
         LET tg == Single(c, t) IN
         /\ PreSetRel(gw, e, tg)
         /\ Step(BSetRel(st, e, tg), DoSetRel(gw, e, tg), ords,
                 Entry("SetRel", Ord(e), {}, {}, EmptyFn, tg, 1, 0, NoFlt, "val"))

OpKill ==
    /\ "Kill" \in OpKinds /\ Room
    /\ \E e \in Alive(gw) :
         /\ e[2] < MaxGen
         /\ Step(BKill(st, e), DoKill(gw, e), ords,
                 Entry("Kill", Ord(e), {}, {}, EmptyFn, EmptyFn, 1, 0, NoFlt, "val"))

OpAddBatch ==
    /\ "AddBatch" \in OpKinds /\ Room
    /\ \E ff \in AllBatchFilters : \E C \in DeltaSets : \E tg \in TgFor(C) :
         LET fid == ff[1] flt == ff[2] S == Select(gw, flt) IN
         /\ S # {}
         /\ PreAddBatch(gw, flt, C, tg)
         /\ LET vf == [x \in S |-> BatchVal(Ord(x), C)]
                s1 == BExchangeBatch(st, flt, fid, C, {}, tg)
                RECURSIVE W(_, _)
                W(s, R) == IF R = {} THEN s ELSE LET x == CHOOSE y \in R : TRUE IN W(WriteVals(s, x, vf[x]), R \ {x})
            IN Step(IF Ok(s1) THEN W(s1, S) ELSE s1, DoExchangeBatch(gw, S, C, {}, vf, tg), ords,
                    Entry("AddBatch", 0, C, {}, EmptyFn, tg, 1, fid, FltJson(flt), "fn"))

OpExchangeBatch ==
    /\ "ExchangeBatch" \in OpKinds /\ Room
    /\ \E ff \in AllBatchFilters : \E add \in DeltaSets : \E rem \in DeltaSets : \E tg \in TgFor(add) :
         LET fid == ff[1] flt == ff[2] S == Select(gw, flt) IN
         /\ S # {}
         /\ PreExchangeBatch(gw, flt, add, rem, tg)
         /\ LET vf == [x \in S |-> BatchVal(Ord(x), add)]
                s1 == BExchangeBatch(st, flt, fid, add, rem, tg)
                RECURSIVE W(_, _)
                W(s, R) == IF R = {} THEN s ELSE LET x == CHOOSE y \in R : TRUE IN W(WriteVals(s, x, vf[x]), R \ {x})
            IN Step(IF Ok(s1) THEN W(s1, S) ELSE s1, DoExchangeBatch(gw, S, add, rem, vf, tg), ords,
                    Entry("ExchangeBatch", 0, add, rem, EmptyFn, tg, 1, fid, FltJson(flt), "fn"))

OpRemoveBatch ==
    /\ "RemoveBatch" \in OpKinds /\ Room
    /\ \E ff \in AllBatchFilters : \E C \in DeltaSets :
         LET fid == ff[1] flt == ff[2] S == Select(gw, flt) IN
         /\ S # {}
         /\ PreRemoveBatch(gw, flt, C)
         /\ Step(BExchangeBatch(st, flt, fid, {}, C, EmptyFn),
                 DoExchangeBatch(gw, S, {}, C, [x \in S |-> EmptyFn], EmptyFn), ords,
                 Entry("RemoveBatch", 0, {}, C, EmptyFn, EmptyFn, 1, fid, FltJson(flt), "fn"))

OpSetRelBatch ==
    /\ "SetRelBatch" \in OpKinds /\ Room
    /\ \E ff \in AllBatchFilters : \E c \in RelSet : \E t \in TargetChoices :
         LET fid == ff[1] flt == ff[2] S == Select(gw, flt) tg == Single(c, t) IN
         /\ S # {}
         /\ PreSetRelBatch(gw, flt, tg)
         /\ Step(BSetRelBatch(st, flt, fid, tg), DoSetRelBatch(gw, S, tg), ords,
                 Entry("SetRelBatch", 0, {}, {}, EmptyFn, tg, 1, fid, FltJson(flt), "fn"))

OpKillBatch ==
    /\ "KillBatch" \in OpKinds /\ Room
    /\ \E ff \in AllBatchFilters :
         LET fid == ff[1] flt == ff[2] S == Select(gw, flt) IN
         /\ S # {}
         /\ \A x \in S : x[2] < MaxGen
         /\ PreKillBatch(gw, flt)
         /\ Step(BKillBatch(st, flt, fid), DoKillSet(gw, S), ords,
                 Entry("KillBatch", 0, {}, {}, EmptyFn, EmptyFn, 1, fid, FltJson(flt), "fn"))

\* queries that stay open (C07): any filter of the catalogue, registered or not
OpQOpen ==
    /\ "QOpen" \in OpKinds /\ Room
    /\ ~LockFull(st)
    /\ \E q \in (1..MaxOpen) \ DOMAIN gw.open : \E ff \in AllBatchFilters :
         /\ \A p \in DOMAIN gw.open : p < q => TRUE
         /\ q = (CHOOSE m \in (1..MaxOpen) \ DOMAIN gw.open : \A n \in (1..MaxOpen) \ DOMAIN gw.open : m <= n)
         /\ Step(BQOpen(st, q, ff[2], ff[1]), DoQOpen(gw, q, ff[2]), ords,
                 [Entry("QOpen", 0, {}, {}, EmptyFn, EmptyFn, 1, ff[1], FltJson(ff[2]), "val") EXCEPT !.n = q])

OpQNext ==
    /\ "QOpen" \in OpKinds /\ Room
    /\ \E q \in DOMAIN gw.open :
         LET rows == st.qs[q].rows IN
         Step(BQNext(st, q), IF rows = <<>> THEN DoQClose(gw, q) ELSE DoQYield(gw, q, Head(rows)), ords,
              [Entry("QNext", 0, {}, {}, EmptyFn, EmptyFn, 1, 0, NoFlt, "val") EXCEPT !.n = q])

OpQClose ==
    /\ "QOpen" \in OpKinds /\ Room
    /\ \E q \in DOMAIN gw.open :
         Step(BQClose(st, q), DoQClose(gw, q), ords,
              [Entry("QClose", 0, {}, {}, EmptyFn, EmptyFn, 1, 0, NoFlt, "val") EXCEPT !.n = q])

\* observers (C08 / C09): layer B is not affected; the ghost world records who is registered
OpRegO ==
    /\ "RegO" \in OpKinds /\ Room
    /\ \E k \in (DOMAIN ObsCat) \ DOMAIN gw.obs :
         LET o == ObsCat[k] IN
         Step(st, DoRegO(gw, k, o), ords,
              [Entry("RegO", 0, {}, {}, EmptyFn, EmptyFn, 1, 0, NoFlt, "val") EXCEPT !.o = k,
                  !.obs = [ev |-> o.ev, obs |-> CSeq(o.obs), with |-> CSeq(o.with), without |-> CSeq(o.without), excl |-> o.excl]])

OpUnregO ==
    /\ "RegO" \in OpKinds /\ Room
    /\ \E k \in DOMAIN gw.obs :
         Step(st, DoUnregO(gw, k), ords,
              [Entry("UnregO", 0, {}, {}, EmptyFn, EmptyFn, 1, 0, NoFlt, "val") EXCEPT !.o = k])

OpEmit ==
    /\ "Emit" \in OpKinds /\ Room
    /\ \E e \in Alive(gw) \cup {Zero} : \E C \in (IF e = Zero THEN {{}} ELSE SUBSET CompsOf(gw, e)) :
         Step(st, gw, ords,
              [Entry("Emit", Ord(e), C, {}, EmptyFn, EmptyFn, 1, 0, NoFlt, "val") EXCEPT !.ev = "Custom0"])

\* C17: dump the entity state, load it into a second world and create one more entity in both.  In layer B the
\* loaded pool is a copy (entities, next, available) of the dumped one, so both worlds issue PoolPeek(st).
OpDumpLoad ==
    /\ "DumpLoad" \in OpKinds /\ Room /\ CanCreate(1) /\ ~Locked(gw)
    /\ \E mode \in {"fresh", "reset"} :
         LET h == PoolPeek(st) IN
         Step(BNew(st, {}, EmptyFn), DoNew(gw, h, {}, EmptyFn, EmptyFn), Append(ords, h),
              Entry("DumpLoad", 0, {}, {}, EmptyFn, EmptyFn, 1, 0, NoFlt, mode))

OpRegF ==
    /\ "RegF" \in OpKinds /\ Room
    /\ \E k \in RegCat \ DOMAIN gw.regF : \E a \in [FilterCat[k].ftc -> TargetChoices] :
         LET f == FilterCat[k]
             flt == [with |-> f.with, without |-> f.without, excl |-> f.excl, ft |-> a, qt |-> EmptyFn]
         IN Step(BRegF(st, k, flt), DoRegF(gw, k, flt), ords,
                 Entry("RegF", 0, {}, {}, EmptyFn, EmptyFn, 1, k, FltJson(flt), "val"))

OpUnregF ==
    /\ "UnregF" \in OpKinds /\ Room
    /\ \E k \in DOMAIN gw.regF :
         Step(BUnregF(st, k), DoUnregF(gw, k), ords,
              Entry("UnregF", 0, {}, {}, EmptyFn, EmptyFn, 1, k, NoFlt, "val"))

OpShrink ==
    /\ "Shrink" \in OpKinds /\ Room /\ ~Locked(gw)
    /\ \E mode \in {"all", "one"} :
         /\ BShrink(st, mode) # st
         /\ Step(BShrink(st, mode), gw, ords,
                 Entry("Shrink", 0, {}, {}, EmptyFn, EmptyFn, 1, 0, NoFlt, mode))

OpReset ==
    /\ "Reset" \in OpKinds /\ Room
    /\ (Len(st.pool) > 0 \/ DOMAIN st.res # {})
    /\ Step(BReset(st), DoReset(gw), <<>>,
            Entry("Reset", 0, {}, {}, EmptyFn, EmptyFn, 1, 0, NoFlt, "val"))

\* the world is replaced by the one its own dump is loaded into: a fresh world, or the same world after Reset
OpLoad ==
    /\ "Load" \in OpKinds /\ Room /\ ~Locked(gw) /\ Len(st.pool) > 0
    /\ \E mode \in {"fresh", "reset"} :
         LET d == BDump(st)
             base == IF mode = "fresh" THEN InitStorage ELSE BReset(st) IN
         Step(BLoad(base, d), DoLoad(gw), ords,
              Entry("Load", 0, {}, {}, EmptyFn, EmptyFn, 1, 0, NoFlt, mode))

\* resources (C18 / C16): a partial map, cleared by Reset; independent of the world lock
OpResAdd ==
    /\ "Res" \in OpKinds /\ Room
    /\ \E t \in ResSet :
         /\ PreResAdd(gw, t)
         /\ LET v == 1 IN
            Step(BResAdd(st, t, v), DoResAdd(gw, t, v), ords,
                 [Entry("ResAdd", 0, {}, {}, Single(t, v), EmptyFn, 1, 0, NoFlt, "val") EXCEPT !.ev = t])

OpResRemove ==
    /\ "Res" \in OpKinds /\ Room
    /\ \E t \in ResSet :
         /\ PreResRemove(gw, t)
         /\ Step(BResRemove(st, t), DoResRemove(gw, t), ords,
                 [Entry("ResRemove", 0, {}, {}, EmptyFn, EmptyFn, 1, 0, NoFlt, "val") EXCEPT !.ev = t])

OpResSet ==
    /\ "Res" \in OpKinds /\ Room
    /\ \E t \in ResSet :
         /\ PreResSet(gw, t) /\ gw.res[t] = 1
         /\ Step(BResSet(st, t, 2), DoResSet(gw, t, 2), ords,
                 [Entry("ResSet", 0, {}, {}, Single(t, 2), EmptyFn, 1, 0, NoFlt, "val") EXCEPT !.ev = t])

Next == \/ OpNew \/ OpNewNoInit \/ OpNewBatch \/ OpCopy \/ OpAdd \/ OpAddNoInit \/ OpRemove \/ OpExchange \/ OpSet \/ OpSetRel \/ OpKill
        \/ OpAddBatch \/ OpExchangeBatch \/ OpRemoveBatch \/ OpSetRelBatch \/ OpKillBatch
        \/ OpRegF \/ OpUnregF \/ OpShrink \/ OpReset \/ OpQOpen \/ OpQNext \/ OpQClose
        \/ OpRegO \/ OpUnregO \/ OpEmit \/ OpDumpLoad \/ OpLoad
        \/ OpResAdd \/ OpResRemove \/ OpResSet

Spec == Init /\ [][Next]_vars

(***************************************************************************)
(* Emission of one operation sequence per transition.                      *)
(***************************************************************************)
OpCode(op) == CASE op = "New" -> 1 [] op = "Add" -> 2 [] op = "Remove" -> 3 [] op = "Kill" -> 5 [] op = "Set" -> 7
                 [] op = "SetRel" -> 11 [] op = "Shrink" -> 13 [] op = "Copy" -> 17 [] op = "Exchange" -> 19
                 [] op = "RegF" -> 23 [] op = "UnregF" -> 29 [] op = "Reset" -> 31 [] OTHER -> 37
RECURSIVE Chk(_, _)
Chk(h, i) == IF i > Len(h) THEN 0
             ELSE (i * (OpCode(h[i].op) + 41 * h[i].e + 43 * Len(h[i].add) + 47 * Len(h[i].rem) + 53 * h[i].f
                        + 59 * Cardinality(DOMAIN h[i].tg)) + 3 * Chk(h, i + 1)) % 9973
Emit == IF EmitMode = "last"
        THEN (IF Len(hist') = MaxHist THEN PrintT("SEQ " \o ToJson(hist')) ELSE TRUE)
        ELSE IF EmitPct >= 100 \/ (Chk(hist', 1) + EmitSeed * 7919) % 100 < EmitPct
             THEN PrintT("SEQ " \o ToJson(hist')) ELSE TRUE

Bounded == Len(st.tabs) <= MaxTabs

(***************************************************************************)
(* Invariants (design check).                                              *)
(***************************************************************************)
NoPanic   == Ok(st)                       \* C04: a valid call never fails
Refines   == Ok(st) => AbsEnt(st) = gw.ent \* C01: layer B represents exactly the layer-A world
BRes      == Ok(st) => st.res = gw.res      \* C18/C16: the resource slots represent exactly the layer-A resources
AOK       == WorldTypeOK(gw) /\ TargetsValid(gw) /\ AliveIdsDistinct(gw)
BIndexOK  == Ok(st) => IndexOK(st)
BFreeList == Ok(st) => FreeListOK(st)
BSpare    == Ok(st) => SpareCellsZero(st)
BTables   == Ok(st) => TablesOK(st)
BRelIndex == Ok(st) => RelIndexOK(st)
BCache    == Ok(st) => CacheOK(st)
BGraph    == Ok(st) => (GraphOK(st) /\ CompIndexOK(st))
BLock     == Ok(st) => (LockOK(st) /\ (IsLockedB(st) <=> Locked(gw)) /\ DOMAIN st.qs = DOMAIN gw.open)
\* C03: an open query yields exactly what is left of its selection
BOpenRows == Ok(st) => \A q \in DOMAIN st.qs : SetOf(st.qs[q].rows) = gw.open[q].rem /\ Len(st.qs[q].rows) = Cardinality(gw.open[q].rem)
BCacheIds == Ok(st) => {st.cache[i].fid : i \in DOMAIN st.cache} = DOMAIN gw.regF
\* C03/C05/C06: the tables a query or batch walks hold exactly the selected entities, once each
QueriesExact ==
    Ok(st) => \A ff \in AllBatchFilters :
        LET rows == QueryRows(st, ff[2], ff[1]) IN
        /\ SetOf(rows) = Select(gw, ff[2])
        /\ Len(rows) = Cardinality(Select(gw, ff[2]))
\* C02: handles are never issued twice
UniqueHandles == \A i, j \in DOMAIN ords : ords[i] = ords[j] => i = j
DeadNotTarget == Ok(st) => \A p \in DOMAIN st.isTgt : st.eidx[p].t = NoTable => ~st.isTgt[p]

\* C09: inside removal callbacks of Remove / Exchange the storage still represents the pre-state, every entity once
CbProps == [][(hist' # hist /\ hist'[Len(hist')].op \in {"Remove", "Exchange"} /\ hist'[Len(hist')].rem # <<>> /\ Ok(st'))
                 => LET o == hist'[Len(hist')]
                        h == ords[o.e]
                        cs == BRemoveCbState(st, h, SetOf(o.add), SetOf(o.rem),
                                             [c \in DOMAIN o.tg |-> IF o.tg[c] = 0 THEN Zero ELSE ords[o.tg[c]]])
                    IN Ok(cs) /\ EntityOnce(cs) /\ IndexOK(cs) /\ AbsEnt(cs) = gw.ent]_vars

\* C15: after an unbounded Shrink capacities are within bounds and no work is left
ShrinkProps == [][(hist' # hist /\ hist'[Len(hist')].op = "Shrink" /\ hist'[Len(hist')].mode = "all")
                    => (CapBoundsOK(st') /\ ~ShrinkHasWork(st'))]_vars

=============================================================================
