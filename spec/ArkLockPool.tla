----------------------------- MODULE ArkLockPool -----------------------------
(***************************************************************************)
(* The world lock of mlange-42/ark on its own (lock.go: Lock / Unlock /    *)
(* IsLocked / Reset; pool.go:99-150: bitPool.Get / getNew / Recycle /      *)
(* Reset), written for an inductive argument (C07): for ANY history of     *)
(* queries opened and closed in any order and of world resets - not only   *)
(* the histories a bounded search reaches -                                *)
(*   - every lock gets a bit no other open query holds (HeldDistinct),     *)
(*   - the world is locked exactly while a query is open (LockedExact),    *)
(*   - closing never hits the "unbalanced unlock" panic (held <= locks),   *)
(*   - as long as fewer than B queries are open another one can be opened  *)
(*     (CapacityUsable: "up to 64 queries may be open at once").           *)
(* IndInv is checked to be inductive with Apalache (Init => IndInv;        *)
(* IndInv /\ Next => IndInv'); TLC checks the same invariants on the       *)
(* reachable states.  B = 64 in the code (mask64TotalBits); bits are       *)
(* 0..B-1.  With ResetClearsAvail = FALSE (bitPool.Reset forgetting        *)
(* `available`, a change five independent seeding agents made) TLC reports *)
(* HeldDistinct after Lock, Unlock, Reset, Lock, Lock.                     *)
(***************************************************************************)
EXTENDS Integers, FiniteSets

CONSTANTS
    \* @type: Int;
    B,
    \* @type: Bool;
    ResetClearsAvail

VARIABLES
    \* @type: Int -> Int;
    bits,      \* bitPool.bits: own index when handed out, next free bit when recycled
    \* @type: Int;
    length,    \* bitPool.length: bits handed out by getNew so far
    \* @type: Int;
    next,      \* bitPool.next: head of the free list (meaningful when avail > 0)
    \* @type: Int;
    avail,     \* bitPool.available
    \* @type: Set(Int);
    locks,     \* lock.locks: the bits set in the lock mask
    \* @type: Set(Int);
    held,      \* ghost: bits held by the open queries / running callbacks
    \* @type: Int -> Int;
    free,      \* ghost: the free list in order (positions 1..avail; -1 beyond)
    \* @type: Bool;
    dup        \* ghost: a Lock returned a bit that was already held

Bits == 0..(B - 1)
Pos == 1..B

Init ==
    /\ bits = [i \in Bits |-> 0] /\ length = 0 /\ next = 0 /\ avail = 0
    /\ locks = {} /\ held = {} /\ free = [i \in Pos |-> -1] /\ dup = FALSE

\* @type: (Int) => Bool;
Took(b) == /\ locks' = locks \union {b}          \* lock.Lock: m.locks.Set(lock)
           /\ dup' = (dup \/ b \in held)
           /\ held' = held \union {b}

LockNew ==      \* bitPool.Get -> getNew (panics when length >= B: the 65th simultaneous lock, outside the property)
    /\ avail = 0 /\ length < B
    /\ bits' = [bits EXCEPT ![length] = length]
    /\ length' = length + 1
    /\ Took(length)
    /\ UNCHANGED <<next, avail, free>>

LockRecycled == \* bitPool.Get: pop the head of the free list
    /\ avail > 0
    /\ next' = bits[next]
    /\ bits' = [bits EXCEPT ![next] = next]
    /\ avail' = avail - 1
    /\ free' = [i \in Pos |-> IF i < B THEN free[i + 1] ELSE -1]
    /\ Took(next)
    /\ UNCHANGED length

\* @type: (Int) => Bool;
Unlock(b) ==    \* lock.Unlock of a bit an open query holds; "unbalanced unlock" if the bit is not set
    /\ b \in held /\ b \in locks
    /\ locks' = locks \ {b}
    /\ bits' = [bits EXCEPT ![b] = next]         \* bitPool.Recycle
    /\ next' = b /\ avail' = avail + 1
    /\ free' = [i \in Pos |-> IF i = 1 THEN b ELSE free[i - 1]]
    /\ held' = held \ {b}
    /\ UNCHANGED <<length, dup>>

Reset ==        \* World.Reset (only on an unlocked world: checkLocked) -> lock.Reset -> bitPool.Reset
    /\ held = {}
    /\ locks' = {} /\ next' = 0 /\ length' = 0
    /\ avail' = IF ResetClearsAvail THEN 0 ELSE avail
    /\ free' = IF ResetClearsAvail THEN [i \in Pos |-> -1] ELSE free
    /\ UNCHANGED <<bits, held, dup>>

Next == LockNew \/ LockRecycled \/ (\E b \in held : Unlock(b)) \/ Reset

vars == <<bits, length, next, avail, locks, held, free, dup>>
Spec == Init /\ [][Next]_vars

\* ------------------------------------------------------------------ properties (C07)
HeldDistinct   == ~dup
LockedExact    == (locks # {}) <=> (held # {})
NeverUnbalanced == held \subseteq locks
CapacityUsable == Cardinality(held) < B => (avail > 0 \/ length < B)

\* ------------------------------------------------------------------ the inductive invariant
TypeOK ==
    /\ bits \in [Bits -> Bits] /\ length \in 0..B /\ next \in Bits /\ avail \in 0..B
    /\ locks \in SUBSET Bits /\ held \in SUBSET Bits
    /\ free \in [Pos -> (-1)..(B - 1)] /\ dup \in BOOLEAN

FreePos == {i \in Pos : i <= avail}
FreeBits == {free[i] : i \in FreePos}
IndInv ==
    /\ TypeOK
    /\ ~dup
    /\ locks = held
    /\ \A i \in Pos : i > avail => free[i] = -1
    /\ \A i \in FreePos : free[i] \in Bits /\ free[i] < length
    /\ \A i, j \in FreePos : i # j => free[i] # free[j]
    /\ avail > 0 => next = free[1]
    /\ \A i \in FreePos : i < avail => bits[free[i]] = free[i + 1]
    /\ \A b \in held : b < length /\ b \notin FreeBits
    /\ \A b \in Bits : b < length => (b \in held \/ b \in FreeBits)
    /\ Cardinality(held) + avail = length
    /\ CapacityUsable

IndInit == IndInv
=============================================================================
