------------------------------ MODULE ArkCursor ------------------------------
(***************************************************************************)
(* The query cursor protocol (query.go, query_gen.go, query_debug*.go,     *)
(* query_nodebug*.go, checks_debug.go): what Next / Entity / Get / Close   *)
(* do to the cursor, the table pointer and the world lock - for queries    *)
(* that walk the archetypes (uncached) and for queries of a registered     *)
(* filter (cached: one flat table list) - and when each call panics in a   *)
(* build with and in a build without the ark_debug tag.                    *)
(*                                                                         *)
(* The operators are pure (used by the monitor ArkCurTrace for the         *)
(* conformance of recorded call sequences); the state machine in           *)
(* ArkCursorMC lets TLC explore every call sequence over a set of table    *)
(* layouts and checks                                                      *)
(*   BuildsAgree  (C20) the two builds panic on exactly the same calls,    *)
(*   LockExact    (C07) the lock is held exactly while the query is        *)
(*                neither exhausted nor closed, and released once,         *)
(*   YieldsExact  (C03) Next yields exactly the rows of the matching,      *)
(*                non-empty tables, in order, each once,                   *)
(*   ClosedIsFinal      a closed query never yields again.                 *)
(***************************************************************************)
EXTENDS Integers, Sequences, FiniteSets, TLC

\* A layout is a sequence of archetypes [m, rel, tabs]: m - the filter matches the archetype's mask; rel - the
\* archetype has relation components (several tables); tabs - sequence of tables [rows, ok]: rows is the
\* sequence of entities (creation ordinals) in row order, ok - the table matches the query's relation targets.
\* A cached query sees the flat list of the tables of all matching archetypes (those with ok).

NoTable == <<>>
Q0 == [arch |-> -1, tab |-> -1, idx |-> 0, max |-> -1, cur |-> NoTable, tables |-> <<>>, lock |-> TRUE, unlocks |-> 0]

IsClosed(q) == q.tab < -1

CloseQ(q) == IF q.tab < -1 THEN q
             ELSE [q EXCEPT !.arch = -2, !.tab = -2, !.idx = 0, !.max = -1, !.tables = <<>>, !.cur = NoTable,
                            !.lock = FALSE, !.unlocks = @ + 1]

\* tables are 1-based sequences here; cursor.table is the 0-based index of the code
SetTable(q, i0, rows) == [q EXCEPT !.tab = i0, !.cur = rows, !.idx = 0, !.max = Len(rows) - 1]

\* nextTable: advance cursor.table through `tabs` up to the first non-empty matching table
RECURSIVE NextTable(_, _)
NextTable(q, tabs) ==
    IF q.tab < Len(tabs) - 1
    THEN LET q1 == [q EXCEPT !.tab = @ + 1] t == tabs[q1.tab + 1] IN
         IF Len(t.rows) = 0 \/ ~t.ok THEN NextTable(q1, tabs)
         ELSE [q |-> SetTable(q1, q1.tab, t.rows), found |-> TRUE]
    ELSE [q |-> q, found |-> FALSE]

RECURSIVE NextArch(_, _)
NextArch(q, lay) ==
    IF q.arch < Len(lay) - 1
    THEN LET q1 == [q EXCEPT !.arch = @ + 1] a == lay[q1.arch + 1] IN
         IF ~a.m THEN NextArch(q1, lay)
         ELSE IF ~a.rel
         THEN (IF Len(a.tabs[1].rows) > 0 THEN [q |-> SetTable(q1, 0, a.tabs[1].rows), res |-> TRUE]
               ELSE NextArch(q1, lay))
         ELSE LET q2 == [q1 EXCEPT !.tables = a.tabs, !.tab = -1]
                  r == NextTable(q2, a.tabs) IN
              IF r.found THEN [q |-> r.q, res |-> TRUE] ELSE NextArch(r.q, lay)
    ELSE [q |-> CloseQ(q), res |-> FALSE]

FlatTables(lay) ==
    LET RECURSIVE F(_)
        F(i) == IF i > Len(lay) THEN <<>> ELSE (IF lay[i].m THEN lay[i].tabs ELSE <<>>) \o F(i + 1)
    IN F(1)

\* Next: [q, panic, res]
NextQ(q, lay, cached) ==
    IF q.idx < q.max THEN [q |-> [q EXCEPT !.idx = @ + 1], panic |-> FALSE, res |-> TRUE]
    ELSE IF q.tab < -1 THEN [q |-> q, panic |-> TRUE, res |-> FALSE]      \* nextTableOrArchetype (both builds)
    ELSE IF cached
    THEN LET r == NextTable(q, FlatTables(lay)) IN
         IF r.found THEN [q |-> r.q, panic |-> FALSE, res |-> TRUE]
         ELSE [q |-> CloseQ(r.q), panic |-> FALSE, res |-> FALSE]
    ELSE LET r1 == IF q.arch >= 0 THEN NextTable(q, q.tables) ELSE [q |-> q, found |-> FALSE] IN
         IF r1.found THEN [q |-> r1.q, panic |-> FALSE, res |-> TRUE]
         ELSE LET r2 == NextArch([r1.q EXCEPT !.tables = <<>>], lay) IN [q |-> r2.q, panic |-> FALSE, res |-> r2.res]

\* the debug build checks the cursor before Next / Entity / Get; the other build runs into the poisoned cursor
NextPanicsDebug(q) == q.tab < -1                               \* checkQueryNext
NextPanicsNoDebug(q) == ~(q.idx < q.max) /\ q.tab < -1         \* panic in nextTableOrArchetype
GetPanicsDebug(q) == q.tab < 0                                 \* checkQueryGet
GetPanicsNoDebug(q) == q.cur = NoTable                         \* nil table / reset column pointer dereferenced
GetQ(q) == IF q.cur = NoTable \/ q.idx + 1 > Len(q.cur) THEN 0 ELSE q.cur[q.idx + 1]

\* what a complete iteration must yield
Expected(lay) ==
    LET RECURSIVE T(_) RECURSIVE A(_)
        T(ts) == IF ts = <<>> THEN <<>> ELSE (IF Head(ts).ok THEN Head(ts).rows ELSE <<>>) \o T(Tail(ts))
        A(i) == IF i > Len(lay) THEN <<>> ELSE (IF lay[i].m THEN T(lay[i].tabs) ELSE <<>>) \o A(i + 1)
    IN A(1)


\* Step(q, lay, cached, call): the outcome of one call - [q, panic, res] with res: Next -> 1/0, Get -> entity
Step(q, lay, cached, call) ==
    CASE call = "Next" -> LET r == NextQ(q, lay, cached) IN [q |-> r.q, panic |-> r.panic, res |-> IF r.res THEN 1 ELSE 0]
      [] call = "Get" -> IF GetPanicsDebug(q) THEN [q |-> q, panic |-> TRUE, res |-> 0] ELSE [q |-> q, panic |-> FALSE, res |-> GetQ(q)]
      [] call = "Close" -> [q |-> CloseQ(q), panic |-> FALSE, res |-> 0]
      \* Count / EntityAt do not depend on the cursor (query_count.go): they work before, during and after the iteration
      [] call = "Count" -> [q |-> q, panic |-> FALSE, res |-> Len(Expected(lay))]
      [] call = "At0" -> IF Expected(lay) = <<>> THEN [q |-> q, panic |-> TRUE, res |-> 0] ELSE [q |-> q, panic |-> FALSE, res |-> Expected(lay)[1]]
      [] call = "AtN" -> [q |-> q, panic |-> TRUE, res |-> 0]

\* Run(lay, cached, calls): outcomes <<[panic, res, lock]>> of a call sequence from a fresh query
RECURSIVE RunFrom(_, _, _, _)
RunFrom(q, lay, cached, calls) ==
    IF calls = <<>> THEN <<>>
    ELSE LET r == Step(q, lay, cached, Head(calls)) IN
         <<[panic |-> r.panic, res |-> r.res, lock |-> r.q.lock]>> \o RunFrom(r.q, lay, cached, Tail(calls))
Run(lay, cached, calls) == RunFrom(Q0, lay, cached, calls)

=============================================================================
