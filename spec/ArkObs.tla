------------------------------- MODULE ArkObs -------------------------------
(***************************************************************************)
(* Layer B for observers: the observer manager of ecs/events.go with its   *)
(* per-event-type aggregates (allComps, allWith, anyNoComps, anyNoWith),   *)
(* the early-out tests of the Fire* functions, the batch loops that stop   *)
(* after the first entity if nothing fired, and the recomputation on       *)
(* unregistration - against layer A's Fires (ArkWorld), which is           *)
(* transcribed from the documentation.                                     *)
(*                                                                         *)
(* One event type per model run (the aggregates are per event type).  The  *)
(* state is the manager after an arbitrary sequence of registrations and   *)
(* unregistrations of observers drawn from the whole space of              *)
(* specifications over Comp; the invariant compares, for every transition  *)
(* an operation can cause, who is called with who must be called (C08:     *)
(* independent of the other registered observers).                         *)
(***************************************************************************)
EXTENDS ArkWorld

CONSTANTS Comp,     \* component universe of the model, e.g. {"A", "R"}
          Rel,      \* relation components
          Ev,       \* the event type of this run
          MaxReg    \* max simultaneously registered observers

VARIABLES list,        \* m.observers[Ev]: sequence of registered specs (order matters: swap-remove)
          allComps, allWith, anyNoComps, anyNoWith, has

ovars == <<list, allComps, allWith, anyNoComps, anyNoWith, has>>

IsEntityEv == Ev \in EntityEvents
IsRelEv == Ev \in {"OnAddRelations", "OnRemoveRelations"}

\* the space of observer specifications for Ev
Specs ==
    {[ev |-> Ev, obs |-> o, with |-> w, without |-> wo, excl |-> x] :
        o \in (IF IsRelEv THEN SUBSET Rel ELSE SUBSET Comp), w \in SUBSET Comp, wo \in SUBSET Comp, x \in BOOLEAN}
SpecOK(s) == s.excl => s.without = {}

(***************************************************************************)
(* observerData as AddObserver computes it (events.go:103-170)             *)
(***************************************************************************)
Data(s) ==
    LET compsMask == IF IsEntityEv THEN {} ELSE s.obs
        withMask  == IF IsEntityEv THEN s.with \cup s.obs ELSE s.with
        hasComps  == compsMask # {}
        hasWith   == withMask # {}
        withoutMask == IF s.excl THEN Comp \ withMask ELSE s.without
        hasWithout  == s.excl \/ s.without # {}
    IN [spec |-> s, comps |-> compsMask, with |-> withMask, without |-> withoutMask,
        hasComps |-> hasComps, hasWith |-> hasWith, hasWithout |-> hasWithout]

Init ==
    /\ list = <<>> /\ allComps = {} /\ allWith = {} /\ anyNoComps = FALSE /\ anyNoWith = FALSE /\ has = FALSE

Register(s) ==   \* AddObserver
    LET d == Data(s) IN
    /\ Len(list) < MaxReg
    /\ \A i \in DOMAIN list : list[i].spec # s
    /\ list' = Append(list, d)
    /\ has' = TRUE
    /\ IF d.hasWith THEN allWith' = allWith \cup d.with /\ UNCHANGED anyNoWith
       ELSE anyNoWith' = TRUE /\ UNCHANGED allWith
    /\ IF IsEntityEv THEN UNCHANGED <<allComps, anyNoComps>>
       ELSE IF d.hasComps THEN allComps' = allComps \cup d.comps /\ UNCHANGED anyNoComps
       ELSE anyNoComps' = TRUE /\ UNCHANGED allComps

\* the recomputation loops of RemoveObserver (events.go:194-223), including their `break`
RECURSIVE ReWith(_, _, _)
ReWith(l, i, acc) == IF i > Len(l) THEN [any |-> FALSE, all |-> acc]
                     ELSE IF ~l[i].hasWith THEN [any |-> TRUE, all |-> acc]
                     ELSE ReWith(l, i + 1, acc \cup l[i].with)
RECURSIVE ReComps(_, _, _)
ReComps(l, i, acc) == IF i > Len(l) THEN [any |-> FALSE, all |-> acc]
                      ELSE IF ~l[i].hasComps THEN [any |-> TRUE, all |-> acc]
                      ELSE ReComps(l, i + 1, acc \cup l[i].comps)

Unregister(k) ==   \* RemoveObserver: swap-remove position k, recompute the aggregates
    LET last == Len(list)
        l2 == SubSeq(IF k = last THEN list ELSE [list EXCEPT ![k] = list[last]], 1, last - 1)
        rw == ReWith(l2, 1, {})
        rc == ReComps(l2, 1, {})
    IN /\ list' = l2
       /\ has' = (last - 1 > 0)
       /\ anyNoWith' = rw.any /\ allWith' = rw.all
       /\ IF IsEntityEv THEN UNCHANGED <<allComps, anyNoComps>>
          ELSE anyNoComps' = rc.any /\ allComps' = rc.all

Next == (\E s \in Specs : SpecOK(s) /\ Register(s)) \/ (\E k \in DOMAIN list : Unregister(k))
Spec == Init /\ [][Next]_ovars

(***************************************************************************)
(* The Fire* functions: the set of list positions whose callback runs.     *)
(***************************************************************************)
Contains(m, sub) == sub \subseteq m
ContainsAny(m, o) == m \cap o # {}

Loop(Skip(_)) == {i \in DOMAIN list : ~Skip(list[i])}

\* FireCreateEntity / FireRemoveEntity (events.go:237-256, 300-318)
FireEntity(mask, earlyOut) ==
    IF earlyOut /\ ~anyNoWith /\ ~ContainsAny(allWith, mask) THEN {}
    ELSE LET Skip(o) == (o.hasWith /\ ~Contains(mask, o.with)) \/ (o.hasWithout /\ ContainsAny(mask, o.without))
         IN Loop(Skip)

\* FireCreateEntityRel / FireRemoveEntityRel (events.go:265-295, 321-350)
FireEntityRel(mask, earlyOut) ==
    IF earlyOut /\ ((~anyNoComps /\ ~ContainsAny(allComps, mask)) \/ (~anyNoWith /\ ~ContainsAny(allWith, mask))) THEN {}
    ELSE LET Skip(o) == (o.hasComps /\ ~Contains(mask, o.comps)) \/ (o.hasWith /\ ~Contains(mask, o.with))
                        \/ (o.hasWithout /\ ContainsAny(mask, o.without))
         IN Loop(Skip)

\* FireAdd (events.go:361-388)
FireAdd(old, new, earlyOut) ==
    IF earlyOut /\ ((~anyNoComps /\ (~ContainsAny(allComps, new) \/ Contains(old, allComps)))
                    \/ (~anyNoWith /\ ~ContainsAny(allWith, old))) THEN {}
    ELSE LET Skip(o) == (o.hasComps /\ (~Contains(new, o.comps) \/ ContainsAny(old, o.comps)))
                        \/ (o.hasWith /\ ~Contains(old, o.with)) \/ (o.hasWithout /\ ContainsAny(old, o.without))
         IN Loop(Skip)

\* FireRemove (events.go:391-419)
FireRemove(old, new, earlyOut) ==
    IF earlyOut /\ ((~anyNoComps /\ (~ContainsAny(allComps, old) \/ Contains(new, allComps)))
                    \/ (~anyNoWith /\ ~ContainsAny(allWith, old))) THEN {}
    ELSE LET Skip(o) == (o.hasComps /\ (ContainsAny(new, o.comps) \/ ~Contains(old, o.comps)))
                        \/ (o.hasWith /\ ~Contains(old, o.with)) \/ (o.hasWithout /\ ContainsAny(old, o.without))
         IN Loop(Skip)

\* FireSet / FireSetRelations / FireCustom (events.go:422-505): changed mask + entity mask
FireChanged(mask, emask, earlyOut) ==
    IF earlyOut /\ ((~anyNoComps /\ ~ContainsAny(allComps, mask)) \/ (~anyNoWith /\ ~ContainsAny(allWith, emask))) THEN {}
    ELSE LET Skip(o) == (o.hasComps /\ ~Contains(mask, o.comps)) \/ (o.hasWith /\ ~Contains(emask, o.with))
                        \/ (o.hasWithout /\ ContainsAny(emask, o.without))
         IN Loop(Skip)

(***************************************************************************)
(* Call sites and what layer A demands for them.                           *)
(***************************************************************************)
Want(changed, X) == {i \in DOMAIN list : Fires(list[i].spec, Ev, changed, X)}

Masks == SUBSET Comp
Pairs == {<<o, n>> \in Masks \X Masks : o # n}

\* a single-entity call (earlyOut = TRUE) and the calls of a batch loop over a table of >= 2 entities
\* (first call earlyOut = TRUE; if it fired for someone, the others are called with earlyOut = FALSE,
\* otherwise the loop stops)
SiteOK(F(_), want) ==
    /\ F(TRUE) = want
    /\ (F(TRUE) # {} => F(FALSE) = want)
    /\ (F(TRUE) = {} => want = {})

DispatchOK ==
    CASE IsEntityEv ->
            \A X \in Masks : LET F(eo) == FireEntity(X, eo) IN SiteOK(F, Want(X, X))
      [] Ev = "OnAddComponents" ->
            \A p \in {q \in Pairs : q[1] \subseteq q[2]} :
                LET F(eo) == FireAdd(p[1], p[2], eo) IN SiteOK(F, Want(p[2] \ p[1], p[1]))
      [] Ev = "OnRemoveComponents" ->
            \A p \in {q \in Pairs : q[2] \subseteq q[1]} :
                LET F(eo) == FireRemove(p[1], p[2], eo) IN SiteOK(F, Want(p[1] \ p[2], p[1]))
      [] Ev = "OnSetComponents" \/ Ev = "Custom0" ->
            \A X \in Masks : \A C \in (SUBSET X) \ (IF Ev = "Custom0" THEN {} ELSE {{}}) :
                LET F(eo) == FireChanged(C, X, eo) IN SiteOK(F, Want(C, X))
      [] Ev = "OnAddRelations" ->
            /\ \A X \in {Y \in Masks : Y \cap Rel # {}} :     \* entity created / copied with relations
                  LET F(eo) == FireEntityRel(X, eo) IN SiteOK(F, Want(X \cap Rel, X))
            /\ \A p \in {q \in Pairs : q[1] \subseteq q[2] /\ (q[2] \ q[1]) \cap Rel # {}} :   \* components added with relations
                  LET F(eo) == FireAdd(p[1], p[2], eo) IN SiteOK(F, Want((p[2] \ p[1]) \cap Rel, p[1]))
            /\ \A X \in Masks : \A C \in (SUBSET (X \cap Rel)) \ {{}} :   \* targets changed
                  LET F(eo) == FireChanged(C, X, eo) IN SiteOK(F, Want(C, X))
      [] Ev = "OnRemoveRelations" ->
            /\ \A X \in {Y \in Masks : Y \cap Rel # {}} :
                  LET F(eo) == FireEntityRel(X, eo) IN SiteOK(F, Want(X \cap Rel, X))
            /\ \A p \in {q \in Pairs : q[2] \subseteq q[1] /\ (q[1] \ q[2]) \cap Rel # {}} :
                  LET F(eo) == FireRemove(p[1], p[2], eo) IN SiteOK(F, Want((p[1] \ p[2]) \cap Rel, p[1]))
            /\ \A X \in Masks : \A C \in (SUBSET (X \cap Rel)) \ {{}} :
                  LET F(eo) == FireChanged(C, X, eo) IN SiteOK(F, Want(C, X))
      [] OTHER -> TRUE

\* the aggregates over-approximate what the observers need (soundness of the early-outs)
AggOK ==
    /\ has = (Len(list) > 0)
    /\ (\E i \in DOMAIN list : ~list[i].hasWith) => anyNoWith
    /\ ~anyNoWith => \A i \in DOMAIN list : list[i].with \subseteq allWith
    /\ ~IsEntityEv => ((\E i \in DOMAIN list : ~list[i].hasComps) => anyNoComps)
    /\ (~IsEntityEv /\ ~anyNoComps) => \A i \in DOMAIN list : list[i].comps \subseteq allComps

=============================================================================
