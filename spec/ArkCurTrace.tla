----------------------------- MODULE ArkCurTrace -----------------------------
(***************************************************************************)
(* Monitor for recorded query call sequences (arkexec -cursor): every      *)
(* "cur" event is a sequence of Next / Ent / Get / Close calls on a fresh  *)
(* query over the layout announced by the preceding "curlayout" event;     *)
(* ArkCursor!Run gives the outcome of every call (panic, result, world     *)
(* lock).  Non-halting: disagreements are collected and printed as JSON.   *)
(***************************************************************************)
EXTENDS ArkCursor, Json, IOUtils

Trace == ndJsonDeserialize(IOEnv.TRACE_FILE)

VARIABLES l, viol, lay0, cached0, seqno, kind0
tvars == <<l, viol, lay0, cached0, seqno, kind0>>

\* kind: the query kind of the layout announcement ("typed5 rt=1", "unsafe5 rt=1", "query0 rt=0", ...)
V(cls, d) == [l |-> l, cls |-> cls, d |-> ToString(d), seq |-> seqno, kind |-> kind0]

ModelCall(c) == IF c = "Ent" THEN "Get" ELSE c

CheckCur(ev) ==
    LET calls == [i \in DOMAIN ev.calls |-> ModelCall(ev.calls[i])]
        exp == Run(lay0, cached0, calls)
        \* the first call whose outcome differs (later ones follow from it)
        bad == {i \in DOMAIN calls : ev.out[i].panic # exp[i].panic \/ ev.out[i].lock # exp[i].lock
                                      \/ (~exp[i].panic /\ ~ev.out[i].panic /\ ev.out[i].res # exp[i].res)}
    IN IF bad = {} THEN {}
       ELSE LET i == CHOOSE j \in bad : \A k \in bad : j <= k
                got == ev.out[i] want == exp[i] d == <<ev.calls, i, got, want>> IN
            (IF got.panic /\ ~want.panic
             THEN {V(IF calls[i] = "Close" THEN "C07.close-twice" ELSE "C03.query-panicked", d)} ELSE {})
            \cup (IF ~got.panic /\ want.panic THEN {V("MODEL.cursor-call-accepted", d)} ELSE {})
            \cup (IF got.panic = want.panic /\ ~got.panic /\ got.res # want.res
                  THEN {V(IF calls[i] = "Next" /\ got.res = 1 THEN "C03.extra" ELSE IF calls[i] = "Next" THEN "C03.missing" ELSE "C03.data", d)} ELSE {})
            \cup (IF got.lock # want.lock THEN {V("C07.locked-mismatch", d)} ELSE {})

SetToSeq(S) == LET RECURSIVE G(_) G(T) == IF T = {} THEN <<>> ELSE LET x == CHOOSE y \in T : TRUE IN <<x>> \o G(T \ {x}) IN G(S)

TInit == l = 1 /\ viol = <<>> /\ lay0 = <<>> /\ cached0 = FALSE /\ seqno = 0 /\ kind0 = ""
TNext == /\ l <= Len(Trace)
         /\ l' = l + 1
         /\ LET ev == Trace[l] IN
            CASE ev.k = "reset" -> seqno' = seqno + 1 /\ UNCHANGED <<viol, lay0, cached0, kind0>>
              [] ev.k = "curlayout" -> lay0' = ev.lay /\ cached0' = ev.cached /\ kind0' = ev.kind /\ UNCHANGED <<viol, seqno>>
              [] ev.k = "cur" -> viol' = (IF Len(viol) < 300 THEN viol \o SetToSeq(CheckCur(ev)) ELSE viol) /\ UNCHANGED <<lay0, cached0, seqno, kind0>>
              [] ev.k = "broken" -> viol' = Append(viol, V("ANY.world-unreadable", ev.msg)) /\ UNCHANGED <<lay0, cached0, seqno, kind0>>
              [] OTHER -> UNCHANGED <<viol, lay0, cached0, seqno, kind0>>
TSpec == TInit /\ [][TNext]_tvars

Done == l = Len(Trace) + 1 => PrintT("VERDICT " \o ToJson([lines |-> Len(Trace), seqs |-> seqno, viol |-> viol]))

=============================================================================
