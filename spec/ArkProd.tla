------------------------------- MODULE ArkProd -------------------------------
(***************************************************************************)
(* Product traces: the logs of several executions of the SAME operation    *)
(* history, zipped line by line ({"k":"prod","mode":..,"a":..,"b":..}).    *)
(* Each component log is validated against layer A by ArkTrace; this       *)
(* monitor adds the equivalence a property demands BETWEEN executions:     *)
(*   C12: two worlds (same process / different processes) agree on         *)
(*        everything that is logged: handles, iteration order of every     *)
(*        query, callback order, statistics;                               *)
(*   C14: the typed generic API and the ID-based API have the same effect  *)
(*        and return the same data;                                        *)
(*   C06: a batch operation and the single-entity operations it            *)
(*        abbreviates leave the same world (up to iteration order),        *)
(*        including what later operations reveal of its hidden state;      *)
(*   C20: builds with / without ark_tiny and ark_debug produce the same    *)
(*        results and panic on exactly the same calls.                     *)
(***************************************************************************)
EXTENDS Integers, Sequences, FiniteSets, TLC, Json, IOUtils

Trace == ndJsonDeserialize(IOEnv.TRACE_FILE)

VARIABLES l, viol,
          oma, omb     \* handle of every creation ordinal in execution a / b (from the last op event)
pvars == <<l, viol, oma, omb>>

SetOf(s) == {s[i] : i \in DOMAIN s}
Bag(s) == [x \in SetOf(s) |-> Cardinality({i \in DOMAIN s : s[i] = x})]
V(cls, d) == [l |-> l, cls |-> cls, d |-> ToString(d)]

Ents(st) == SetOf(st.ents)
Es(vis) == [i \in DOMAIN vis |-> vis[i].e]
CbPairs(cbs) == [i \in DOMAIN cbs |-> <<cbs[i].o, cbs[i].e>>]

(***************************************************************************)
(* C12: determinism - everything logged is identical.                      *)
(***************************************************************************)
C12(a, b) ==
    IF a.k = "reset" THEN {}
    ELSE IF a = b THEN {}
    ELSE IF a.k = "op"
    THEN (IF a.ret # b.ret THEN {V("C12.handle", <<a.ret, b.ret>>)} ELSE {})
         \cup (IF a.st # b.st \/ a.panic # b.panic THEN {V("C12.state", <<a.op, a.i>>)} ELSE {})
         \cup (IF CbPairs(a.cbs) # CbPairs(b.cbs) \/ a.bvals # b.bvals \/ a.res # b.res \/ a.ok # b.ok
               THEN {V("C12.order", <<a.op, a.i>>)} ELSE {})
         \cup (IF a.ret = b.ret /\ a.st = b.st /\ a.panic = b.panic /\ CbPairs(a.cbs) = CbPairs(b.cbs) /\ a.bvals = b.bvals
                  /\ a.res = b.res /\ a.ok = b.ok
               THEN {V("C12.other", <<a.op, a.i>>)} ELSE {})
    ELSE IF a.k = "probe"
    THEN (IF Es(a.visited) # Es(b.visited) \/ a.at # b.at THEN {V("C12.order", <<Es(a.visited), Es(b.visited)>>)}
          ELSE {V("C12.other", "probe")})
    ELSE IF a.k = "stats" THEN {V("C12.stats", "statistics differ")}
    ELSE {V("C12.other", a.k)}

(***************************************************************************)
(* C14: typed vs ID-based API (executions through different API paths).    *)
(* The two executions may iterate (and therefore recycle ids) in a         *)
(* different order, so entities are compared by creation ordinal.          *)
(***************************************************************************)
OrdIn(om, h) == IF \E i \in DOMAIN om : om[i] = h THEN CHOOSE i \in DOMAIN om : om[i] = h ELSE (IF h = <<0, 0>> THEN 0 ELSE -1)
OrdEnts(om, st) ==
    {[e |-> OrdIn(om, st.ents[i].e), c |-> st.ents[i].c, v |-> st.ents[i].v,
      t |-> [k \in DOMAIN st.ents[i].t |-> OrdIn(om, st.ents[i].t[k])]] : i \in DOMAIN st.ents}
OrdSeq(om, hs) == [i \in DOMAIN hs |-> OrdIn(om, hs[i])]

\* Diff(p, ...): the comparison for C14 (p = "C14") and for C06 (p = "C06": the batched execution a and the execution
\* b in which every batch operation was replaced by the single-entity operations it abbreviates).
Diff(p, a, b, ma, mb) ==
    IF a.k # b.k THEN {V(p \o ".shape", <<a.k, b.k>>)}
    ELSE IF a.k = "op"
    THEN (IF a.panic # b.panic THEN {V(p \o ".panic-differs", <<a.op, a.i, a.panic, b.panic>>)} ELSE {})
         \cup (IF Len(a.ret) # Len(b.ret) THEN {V(p \o ".returned-handles", <<a.op, a.i>>)} ELSE {})
         \cup (IF OrdEnts(a.om, a.st) # OrdEnts(b.om, b.st) \/ a.st.locked # b.st.locked \/ a.st.used # b.st.used
               THEN {V(p \o ".state", <<a.op, a.i>>)} ELSE {})
         \cup (IF a.op # "Set" /\ Bag(OrdSeq(a.om, [i \in DOMAIN a.cbs |-> a.cbs[i].e])) # Bag(OrdSeq(b.om, [i \in DOMAIN b.cbs |-> b.cbs[i].e]))
               THEN {V(p \o ".callback-wiring", <<a.op, a.i>>)} ELSE {})
         \* (a batch relation change need not call back for entities it leaves unchanged)
         \cup (IF ~(p = "C06" /\ a.op = "SetRelBatch")
                  /\ Bag(OrdSeq(a.om, [i \in DOMAIN a.bvals |-> a.bvals[i].e])) # Bag(OrdSeq(b.om, [i \in DOMAIN b.bvals |-> b.bvals[i].e]))
               THEN {V(p \o ".batch-callbacks", <<a.op, a.i>>)} ELSE {})
         \cup (IF a.ok # b.ok THEN {V(p \o ".query-step", <<a.op, a.i>>)} ELSE {})
    \* (a query naming a removed entity as target: the typed API checks per-query targets, the ID-based API does not -
    \* each execution is held to "rejected or empty" by ArkTrace, the two API paths are not compared with each other)
    \* (C06: the two executions recycle ids in a different order, so the same stale ordinal is a recycled id in one and
    \* a plain dead one in the other)
    ELSE IF a.k = "probe" /\ a.stale THEN {}
    ELSE IF a.k = "probe"
    THEN (IF a.panic # b.panic THEN {V(p \o ".panic-differs", "probe")} ELSE {})
         \cup (IF Bag(OrdSeq(ma, Es(a.visited))) # Bag(OrdSeq(mb, Es(b.visited))) \/ a.count # b.count
                  \/ Bag(OrdSeq(ma, a.at)) # Bag(OrdSeq(mb, b.at))
               THEN {V(p \o ".query-result", <<Es(a.visited), Es(b.visited)>>)} ELSE {})
    ELSE {}
C14(a, b, ma, mb) == Diff("C14", a, b, ma, mb)
C06(a, b, ma, mb) == Diff("C06", a, b, ma, mb)

(***************************************************************************)
(* C20: build configurations (same API path, different build tags).        *)
(***************************************************************************)
C20(a, b) ==
    IF a.k # b.k THEN {V("C20.shape", <<a.k, b.k>>)}
    ELSE IF a.k = "op"
    THEN (IF a.panic # b.panic THEN {V("C20.panic-differs", <<a.op, a.i, a.mode, a.panic, b.panic>>)} ELSE {})
         \cup (IF a.ret # b.ret \/ a.st # b.st \/ CbPairs(a.cbs) # CbPairs(b.cbs) \/ a.bvals # b.bvals \/ a.res # b.res \/ a.ok # b.ok
               THEN {V("C20.result", <<a.op, a.i, a.mode>>)} ELSE {})
    ELSE IF a.k = "probe"
    THEN (IF a.panic # b.panic THEN {V("C20.panic-differs", "probe")} ELSE {})
         \cup (IF a.visited # b.visited \/ a.count # b.count \/ a.at # b.at THEN {V("C20.result", "probe")} ELSE {})
    ELSE IF a.k = "qmis"
    THEN (IF a.panic # b.panic THEN {V("C20.panic-differs", <<a.what, a.api, a.panic, b.panic>>)} ELSE {})
         \cup (IF a.panic = b.panic /\ a.val # b.val THEN {V("C20.result", <<a.what, a.api, a.val, b.val>>)} ELSE {})
    ELSE IF a.k = "stats" THEN (IF a # b THEN {V("C20.result", "statistics")} ELSE {})
    ELSE IF a.k = "cur"     \* query call sequences (arkexec -cursor): same panics, same results, same lock after every call
    THEN (IF [i \in DOMAIN a.out |-> a.out[i].panic] # [i \in DOMAIN b.out |-> b.out[i].panic]
          THEN {V("C20.panic-differs", <<a.calls, a.out, b.out>>)}
          ELSE IF a.out # b.out THEN {V("C20.result", <<a.calls, a.out, b.out>>)} ELSE {})
    ELSE IF a.k = "curlayout" THEN (IF a # b THEN {V("C20.result", "cursor layout")} ELSE {})
    ELSE IF a.k = "reg"     \* registry histories up to 64 types: the capacity of the build (max) is the only difference
    THEN (IF a.panic # b.panic THEN {V("C20.panic-differs", <<a.op, a.t, a.ids, a.panic, b.panic>>)} ELSE {})
         \cup (IF a.id # b.id \/ a.ok # b.ok \/ a.count # b.count THEN {V("C20.result", <<a.op, a.t, a.ids>>)} ELSE {})
    ELSE {}

Cmp(ev) == CASE ev.mode = "C12" -> C12(ev.a, ev.b)
             [] ev.mode = "C14" -> C14(ev.a, ev.b, oma, omb)
             [] ev.mode = "C06" -> C06(ev.a, ev.b, oma, omb)
             [] ev.mode = "C20" -> C20(ev.a, ev.b)
             [] OTHER -> {}

SetToSeq(S) == LET RECURSIVE G(_) G(T) == IF T = {} THEN <<>> ELSE LET x == CHOOSE y \in T : TRUE IN <<x>> \o G(T \ {x}) IN G(S)

PInit == l = 1 /\ viol = <<>> /\ oma = <<>> /\ omb = <<>>
PNext == /\ l <= Len(Trace)
         /\ l' = l + 1
         \* (at most ~300 disagreements are collected: every further one costs time and adds nothing to the verdict)
         /\ viol' = IF Trace[l].k = "prod" /\ Len(viol) < 300 THEN viol \o SetToSeq(Cmp(Trace[l])) ELSE viol
         /\ IF Trace[l].k = "prod" /\ Trace[l].a.k = "op" /\ Trace[l].b.k = "op"
            THEN oma' = Trace[l].a.om /\ omb' = Trace[l].b.om
            ELSE UNCHANGED <<oma, omb>>
PSpec == PInit /\ [][PNext]_pvars

Done == l = Len(Trace) + 1 => PrintT("VERDICT " \o ToJson([lines |-> Len(Trace), seqs |-> 0, viol |-> viol]))

=============================================================================
