------------------------------- MODULE ArkReg -------------------------------
(***************************************************************************)
(* Layer B for the type registry (registry.go) and the conversion of an    *)
(* archetype mask to its component list (mask256.go toTypes), with the     *)
(* word arithmetic kept (WordSize and MaxTypes are scaled down so that the *)
(* boundary "all MaxTypes ids registered" is reachable), and layer A's     *)
(* statement (C18): ids are sequential, stable and injective; MaxTypes     *)
(* types can be registered and every mask over registered ids is usable;   *)
(* registration beyond the limit or on a locked world panics and consumes  *)
(* no id; resources behave as a partial map.                               *)
(***************************************************************************)
EXTENDS Integers, Sequences, FiniteSets, TLC

CONSTANTS Types,      \* type tokens
          MaxTypes,   \* maskTotalBits (256 / 64), scaled down
          WordSize,   \* 64, scaled down
          FixToTypes  \* TRUE: toTypes as repaired; FALSE: as in the pinned tree

VARIABLES comps,   \* registry.Components: type -> id
          ids,     \* registry.IDs
          locked,  \* world lock
          res,     \* resources present (by type)
          last     \* outcome of the last step

rvars == <<comps, ids, locked, res, last>>

Words == (MaxTypes + WordSize - 1) \div WordSize

Init == comps = [t \in {} |-> 0] /\ ids = <<>> /\ locked = FALSE /\ res = {} /\ last = [op |-> "init"]

Count == Cardinality(DOMAIN comps)

\* World.componentID (world_internal.go): ComponentID + rollback when locked
Register(t) ==
    IF t \in DOMAIN comps
    THEN /\ last' = [op |-> "reg", t |-> t, panic |-> FALSE, id |-> comps[t]] /\ UNCHANGED <<comps, ids, locked, res>>
    ELSE IF Count >= MaxTypes                   \* registerComponent panics before changing anything
    THEN /\ last' = [op |-> "reg", t |-> t, panic |-> TRUE, id |-> -1] /\ UNCHANGED <<comps, ids, locked, res>>
    ELSE IF locked                              \* registered, then unregisterLastComponent, then panic
    THEN /\ last' = [op |-> "reg", t |-> t, panic |-> TRUE, id |-> -1] /\ UNCHANGED <<comps, ids, locked, res>>
    ELSE /\ comps' = [x \in DOMAIN comps \cup {t} |-> IF x = t THEN Count ELSE comps[x]]
         /\ ids' = Append(ids, Count)
         /\ last' = [op |-> "reg", t |-> t, panic |-> FALSE, id |-> Count]
         /\ UNCHANGED <<locked, res>>

ToggleLock == locked' = ~locked /\ last' = [op |-> "lock"] /\ UNCHANGED <<comps, ids, res>>

ResAdd(t)    == /\ last' = [op |-> "resadd", t |-> t, panic |-> (t \in res)]
                /\ res' = res \cup {t} /\ UNCHANGED <<comps, ids, locked>>
ResRemove(t) == /\ last' = [op |-> "resrem", t |-> t, panic |-> (t \notin res)]
                /\ res' = res \ {t} /\ UNCHANGED <<comps, ids, locked>>

Next == (\E t \in Types : Register(t) \/ ResAdd(t) \/ ResRemove(t)) \/ ToggleLock
Spec == Init /\ [][Next]_rvars

(***************************************************************************)
(* toTypes (mask256.go:102-128): returns the sorted ids of the mask, or    *)
(* {-1} when the code indexes bits[] beyond its length.                   *)
(***************************************************************************)
ToTypes(mask) ==
    LET total == Count
        bins == IF FixToTypes THEN (total + WordSize - 1) \div WordSize ELSE total \div WordSize + 1
        bits == total % WordSize
        RECURSIVE Bin(_, _)
        Bin(i, acc) ==
            IF i >= bins THEN acc
            ELSE IF i >= Words THEN {-1}
            ELSE IF {x \in mask : x \div WordSize = i} = {} THEN Bin(i + 1, acc)   \* b.bits[i] == 0
            ELSE LET cnt == IF i = bins - 1 /\ (~FixToTypes \/ bits # 0) THEN bits ELSE WordSize
                     found == {x \in mask : x \div WordSize = i /\ x % WordSize < cnt}
                 IN Bin(i + 1, acc \cup found)
    IN Bin(0, {})

(***************************************************************************)
(* Properties.                                                             *)
(***************************************************************************)
IdsOK ==
    /\ \A t, u \in DOMAIN comps : comps[t] = comps[u] => t = u
    /\ {comps[t] : t \in DOMAIN comps} = 0..(Count - 1)
    /\ ids = [i \in 1..Count |-> i - 1]

\* every mask over registered ids converts to exactly its ids: all registered types are usable in archetypes
ToTypesOK == \A mask \in SUBSET (0..(Count - 1)) : ToTypes(mask) = mask

\* ids never change; a panicking registration consumes nothing
Stable == [][/\ \A t \in DOMAIN comps : t \in DOMAIN comps' /\ comps'[t] = comps[t]
             /\ (last'.op = "reg" /\ last'.panic) => comps' = comps]_rvars

CapacityUsable == Count <= MaxTypes

=============================================================================
