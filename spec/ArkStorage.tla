---------------------------- MODULE ArkStorage ----------------------------
(***************************************************************************)
(* Layer B: how mlange-42/ark stores a world.  One operator per critical   *)
(* section of the Go code, named after the Go function it transcribes      *)
(* (file:line in comments refer to the pinned tree).  The module is a      *)
(* library of pure operators over a storage record `s`; ArkGen.tla turns   *)
(* it into a state machine with a ghost layer-A world and a history.       *)
(*                                                                         *)
(* s = [ pool   : Seq([link, gen])   entityPool.entities (position i is    *)
(*                                   entity id i+1; ids 0,1 are reserved)  *)
(*       pnext, pavail               entityPool.next / .available          *)
(*       eidx   : Seq([t, r])        storage.entities (t = 0: no table)    *)
(*       isTgt  : Seq(BOOLEAN)       storage.isTarget                      *)
(*       tabs   : Seq(table)         storage.tables                        *)
(*       archs  : Seq(archetype)     storage.archetypes                    *)
(*       graph  : Seq(node)          graph.nodes: [mask, nbr: [comp ->     *)
(*                                   node], arch (0: none yet)]            *)
(*       cidx   : [comp -> Seq(arch)] storage.componentIndex               *)
(*       acnt   : [comp -> Nat]      registry.Archetypes (rare component)  *)
(*       cache  : Seq(cacheEntry)    cache.filters                         *)
(*       err    : STRING             "" or the reason a Go panic was hit   *)
(*       res    : [type -> value]    Resources.resources (nil = absent)    *)
(* table     = [arch, rows: Seq(handle), col: [comp -> Seq(value)] (length *)
(*              cap: the memory beyond len is modelled), tg: [relcomp ->   *)
(*              handle], free, cap]                                        *)
(* archetype = [mask, comps: Seq(comp) (column order), tables, freeT,      *)
(*              relT: [relcomp -> [target id -> Seq(table id)]],           *)
(*              tgtT: [target id -> Seq(table id)]]                        *)
(* cacheEntry= [fid, flt, tables: Seq(table id)]                           *)
(***************************************************************************)
EXTENDS ArkWorld, SequencesExt

CONSTANTS CompSeq,    \* component names in registration (= ID) order, e.g. <<"A","B","R">>
          RelSet,     \* the relation components
          CapN, CapR, \* initial capacities: NewWorld(CapN, CapR)
          ResetThr,   \* column.Reset threshold (64 in the code, 1 in small models)
          MaxLocks    \* number of lock bits (64 in the code)

Comps == SetOf(CompSeq)
SortComps(S) == SelectSeq(CompSeq, LAMBDA c : c \in S)

Pos(id) == id - 1          \* position of entity id in pool / eidx / isTgt
NoTable == 0

CapPow2(n) == CHOOSE p \in {1, 2, 4, 8, 16, 32, 64, 128} : p >= n /\ (p = 1 \/ p \div 2 < n)

SwapRemove(seq, x) ==      \* tableIDs.Remove (archetype.go:64-80)
    IF x \notin SetOf(seq) THEN seq
    ELSE LET i == CHOOSE k \in DOMAIN seq : seq[k] = x /\ \A j \in 1..(k-1) : seq[j] # x
             last == Len(seq)
         IN  SubSeq(IF i = last THEN seq ELSE [seq EXCEPT ![i] = seq[last]], 1, last - 1)

Fail(s, why) == IF s.err = "" THEN [s EXCEPT !.err = why] ELSE s
Ok(s) == s.err = ""

(***************************************************************************)
(* Initial storage: newStorage (storage.go:67-109): archetype 0 with the   *)
(* empty mask and its single table 0 (here: indices 1).                    *)
(***************************************************************************)
NewTable(ai, comps, tg, cap) ==
    [arch |-> ai, rows |-> <<>>, col |-> [c \in SetOf(comps) |-> [i \in 1..cap |-> 0]],
     tg |-> tg, free |-> FALSE, cap |-> cap]

NewArch(mask) ==
    [mask |-> mask, comps |-> SortComps(mask), tables |-> <<>>, freeT |-> <<>>,
     relT |-> [c \in mask \cap RelSet |-> EmptyFn], tgtT |-> EmptyFn, node |-> 1]

InitStorage ==
    [pool |-> <<>>, pnext |-> 0, pavail |-> 0, eidx |-> <<>>, isTgt |-> <<>>,
     tabs |-> <<NewTable(1, <<>>, EmptyFn, CapN)>>,
     archs |-> <<[NewArch({}) EXCEPT !.tables = <<1>>]>>,
     graph |-> <<[mask |-> {}, nbr |-> EmptyFn, arch |-> 1]>>,
     cidx |-> [c \in Comps |-> <<>>], acnt |-> [c \in Comps |-> 0],
     cache |-> <<>>, err |-> "", res |-> EmptyFn,
     lk |-> [bits |-> [i \in 1..MaxLocks |-> 0], len |-> 0, next |-> 0, avail |-> 0, mask |-> {}],
     qs |-> EmptyFn]

(***************************************************************************)
(* Entity pool (pool.go:40-78).                                            *)
(***************************************************************************)
PoolAlive(s, h) == h[1] >= 2 /\ Pos(h[1]) <= Len(s.pool) /\ s.pool[Pos(h[1])].gen = h[2]

PoolPeek(s) == IF s.pavail = 0 THEN <<Len(s.pool) + 2, 0>>
               ELSE <<s.pnext, s.pool[Pos(s.pnext)].gen>>

PoolGet(s) ==   \* entityPool.Get / getNew; returns the storage after the call
    IF s.pavail = 0
    THEN [s EXCEPT !.pool = Append(@, [link |-> Len(s.pool) + 2, gen |-> 0])]
    ELSE LET cur == s.pnext IN
         [s EXCEPT !.pnext = s.pool[Pos(cur)].link,
                   !.pool[Pos(cur)].link = cur,
                   !.pavail = @ - 1]

PoolRecycle(s, h) ==   \* entityPool.Recycle
    [s EXCEPT !.pool[Pos(h[1])] = [link |-> s.pnext, gen |-> @.gen + 1],
              !.pnext = h[1], !.pavail = @ + 1]

\* storage.entities / isTarget bookkeeping after a Get (world_internal.go:28-33, storage.go:387-393)
SetIndex(s, h, t, r, resetTgt) ==
    IF Pos(h[1]) = Len(s.eidx) + 1
    THEN [s EXCEPT !.eidx = Append(@, [t |-> t, r |-> r]), !.isTgt = Append(@, FALSE)]
    ELSE [s EXCEPT !.eidx[Pos(h[1])] = [t |-> t, r |-> r],
                   !.isTgt[Pos(h[1])] = IF resetTgt THEN FALSE ELSE @]

(***************************************************************************)
(* Tables (table.go).                                                      *)
(***************************************************************************)
TLen(t) == Len(t.rows)

Resize(seq, n, len) == [i \in 1..n |-> IF i <= len THEN seq[i] ELSE 0]   \* adjustCapacity :151-182

TExtend(t, by) ==      \* table.Extend :128-134
    LET req == TLen(t) + by IN
    IF t.cap >= req THEN t
    ELSE LET nc == CapPow2(req) IN
         [t EXCEPT !.cap = nc, !.col = [c \in DOMAIN @ |-> Resize(@[c], nc, TLen(t))]]

TAdd(t, h) == [TExtend(t, 1) EXCEPT !.rows = Append(@, h)]       \* table.Add :79-84

TSetCell(t, c, i, v) == [t EXCEPT !.col[c][i] = v]

TRemove(t, i) ==       \* table.Remove :186-221 (swap-remove, zero the vacated last cell)
    LET last == TLen(t) IN
    [t EXCEPT !.rows = SubSeq(IF i = last THEN t.rows ELSE [t.rows EXCEPT ![i] = t.rows[last]], 1, last - 1),
              !.col = [c \in DOMAIN @ |->
                          [j \in 1..t.cap |-> IF j = last THEN 0
                                              ELSE IF j = i THEN @[c][last] ELSE @[c][j]]]]

TReset(t) ==           \* table.Reset :225-230, column.Reset (column.go:94-103)
    LET n == TLen(t) IN
    [t EXCEPT !.rows = <<>>,
              !.col = [c \in DOMAIN @ |->
                          IF n = 0 THEN @[c]
                          ELSE IF n <= ResetThr
                               THEN [j \in 1..t.cap |-> IF j <= n THEN 0 ELSE @[c][j]]
                               ELSE [j \in 1..t.cap |-> 0]]]

TShrinkTarget(t, minCap) == IF CapPow2(IF TLen(t) = 0 THEN 1 ELSE TLen(t)) > minCap
                            THEN CapPow2(IF TLen(t) = 0 THEN 1 ELSE TLen(t)) ELSE minCap
TCanShrink(t, minCap) == t.cap > TShrinkTarget(t, minCap)      \* table.CanShrink :137-140
TShrink(t, minCap) ==                                           \* table.Shrink :143-150
    IF ~TCanShrink(t, minCap) THEN t
    ELSE LET nc == TShrinkTarget(t, minCap) IN
         [t EXCEPT !.cap = nc, !.col = [c \in DOMAIN @ |-> Resize(@[c], nc, TLen(t))]]

\* table.AddAll :233-239 / AddAllEntities + CopyToEnd of the shared columns (world_internal.go:331-338)
TAddAll(dst, src, count, shared) ==
    LET d1 == TExtend(dst, count)
        start == TLen(dst)
    IN [d1 EXCEPT !.rows = @ \o SubSeq(src.rows, 1, count),
                  !.col = [c \in DOMAIN @ |->
                              IF c \in shared
                              THEN [j \in 1..d1.cap |-> IF j > start /\ j <= start + count
                                                        THEN src.col[c][j - start] ELSE @[c][j]]
                              ELSE @[c]]]

TMatchesExact(t, tg) == \A c \in DOMAIN tg : c \in DOMAIN t.tg => t.tg[c] = tg[c]   \* :248-270
TMatches(t, tg) == (DOMAIN tg = {}) \/ (DOMAIN t.tg = {}) \/ \A c \in DOMAIN tg : t.tg[c] = tg[c]  \* :274-288

(***************************************************************************)
(* Archetypes and the relation index (archetype.go).                       *)
(***************************************************************************)
NumRel(a) == Cardinality(a.mask \cap RelSet)
RelCols(a) == SelectSeq(a.comps, LAMBDA c : c \in RelSet)

(***************************************************************************)
(* Archetype graph (graph.go:37-156): Find removes the components of `rem` *)
(* one by one, then adds those of `add`, following the neighbour edge of   *)
(* the current node or, if there is none, finding / creating the node of   *)
(* the resulting mask and linking both directions.                         *)
(***************************************************************************)
NodeOf(s, mask) == IF \E i \in DOMAIN s.graph : s.graph[i].mask = mask
                   THEN CHOOSE i \in DOMAIN s.graph : s.graph[i].mask = mask ELSE 0

GraphStep(r, c, m2) ==    \* r = [s, n]: from node n over component c to the node of mask m2
    LET s == r.s n == r.n IN
    IF c \in DOMAIN s.graph[n].nbr THEN [s |-> s, n |-> s.graph[n].nbr[c]]
    ELSE LET found == NodeOf(s, m2)
             s1 == IF found # 0 THEN s
                   ELSE [s EXCEPT !.graph = Append(@, [mask |-> m2, nbr |-> EmptyFn, arch |-> 0])]
             nx == IF found # 0 THEN found ELSE Len(s1.graph)
         IN [s |-> [s1 EXCEPT !.graph[nx].nbr = Merge(@, Single(c, n)), !.graph[n].nbr = Merge(@, Single(c, nx))],
             n |-> nx]

GraphFind(s0, start, rem, add) ==    \* rem, add: sequences of components
    LET RECURSIVE Rem(_, _, _)
        Rem(r, i, mask) == IF i > Len(rem) THEN [r |-> r, mask |-> mask]
                           ELSE Rem(GraphStep(r, rem[i], mask \ {rem[i]}), i + 1, mask \ {rem[i]})
        RECURSIVE Add(_, _, _)
        Add(r, i, mask) == IF i > Len(add) THEN [r |-> r, mask |-> mask]
                           ELSE Add(GraphStep(r, add[i], mask \cup {add[i]}), i + 1, mask \cup {add[i]})
        a == Rem([s |-> s0, n |-> start], 1, s0.graph[start].mask)
    IN Add(a.r, 1, a.mask).r

\* storage.createArchetype :420-442: new archetype for a graph node, component index, archetype counts
CreateArchetype(s, n) ==
    LET mask == s.graph[n].mask ai == Len(s.archs) + 1 IN
    [s EXCEPT !.archs = Append(@, [NewArch(mask) EXCEPT !.node = n]),
              !.graph[n].arch = ai,
              !.cidx = [c \in DOMAIN @ |-> IF c \in mask THEN Append(@[c], ai) ELSE @[c]],
              !.acnt = [c \in DOMAIN @ |-> IF c \in mask THEN @[c] + 1 ELSE @[c]]]

ArchOf(s, mask) == IF \E i \in DOMAIN s.archs : s.archs[i].mask = mask
                   THEN CHOOSE i \in DOMAIN s.archs : s.archs[i].mask = mask ELSE 0

\* findOrCreateTable* (storage.go:112-231), archetype part: traverse the graph from the archetype `from`
FindOrCreateArchFrom(s0, from, rem, add) ==
    LET r == GraphFind(s0, s0.archs[from].node, SortComps(rem), SortComps(add))
    IN IF r.s.graph[r.n].arch # 0 THEN [s |-> r.s, a |-> r.s.graph[r.n].arch]
       ELSE LET s2 == CreateArchetype(r.s, r.n) IN [s |-> s2, a |-> Len(s2.archs)]

\* archetype.GetTable / getTableSlowPath :161-190.  tg must cover the archetype's relations.
\* Returns a table id, 0 (none) or -1 (the Go code panics).
GetTable(s, ai, tg) ==
    LET a == s.archs[ai] IN
    IF Len(a.tables) = 0 THEN 0
    ELSE IF NumRel(a) = 0 THEN a.tables[1]
    ELSE IF Cardinality(DOMAIN tg) < NumRel(a) THEN -1
    ELSE LET c0 == RelCols(a)[1]
             id0 == tg[c0][1]
         IN IF id0 \notin DOMAIN a.relT[c0] THEN 0
            ELSE LET lst == a.relT[c0][id0]
                     hit == {k \in DOMAIN lst : TMatchesExact(s.tabs[lst[k]], tg)}
                 IN IF hit = {} THEN 0 ELSE lst[CHOOSE k \in hit : \A j \in hit : k <= j]

\* archetype.GetTables :196-206 (tg may be partial; first = first relation column named)
GetTables(s, ai, tg) ==
    LET a == s.archs[ai] IN
    IF NumRel(a) = 0 \/ DOMAIN tg = {} THEN a.tables
    ELSE LET c0 == CHOOSE c \in DOMAIN tg : \A d \in DOMAIN tg :
                        (CHOOSE i \in DOMAIN CompSeq : CompSeq[i] = c) <= (CHOOSE i \in DOMAIN CompSeq : CompSeq[i] = d)
             id0 == tg[c0][1]
         IN IF id0 \in DOMAIN a.relT[c0] THEN a.relT[c0][id0] ELSE <<>>

AppendTo(f, k, x) == IF k \in DOMAIN f THEN [f EXCEPT ![k] = Append(@, x)] ELSE Merge(f, Single(k, <<x>>))
AppendNew(f, k, x) == IF k \in DOMAIN f
                      THEN (IF x \in SetOf(f[k]) THEN f ELSE [f EXCEPT ![k] = Append(@, x)])
                      ELSE Merge(f, Single(k, <<x>>))

\* archetype.AddTable :262-294
AddTable(a, tid, tg) ==
    LET RECURSIVE Go(_, _)
        Go(arch, i) ==
            IF i > Len(RelCols(arch)) THEN arch
            ELSE LET c == RelCols(arch)[i]
                     id == tg[c][1]
                 IN Go([arch EXCEPT !.relT[c] = AppendTo(@, id, tid),
                                    !.tgtT = AppendNew(@, id, tid)], i + 1)
    IN Go([a EXCEPT !.tables = Append(@, tid)], 1)

\* cache.addTable (cache.go:87-112)
CacheAddTable(s, tid) ==
    LET t == s.tabs[tid]
        m == s.archs[t.arch].mask
    IN [s EXCEPT !.cache = [i \in DOMAIN @ |->
            IF MatchesComps(@[i].flt, m) /\ TMatches(t, @[i].flt.ft)
            THEN [@[i] EXCEPT !.tables = Append(@, tid)] ELSE @[i]]]

\* cache.removeTable (cache.go:118-127)
CacheRemoveTable(s, tid) ==
    [s EXCEPT !.cache = [i \in DOMAIN @ |-> [@[i] EXCEPT !.tables = SwapRemove(@, tid)]]]

\* storage.createTable :446-495.  tg: [relcomp of the archetype -> handle]
CreateTable(s, ai, tg) ==
    LET a == s.archs[ai] IN
    IF Cardinality(DOMAIN tg) < NumRel(a) THEN Fail(s, "relation targets must be fully specified")
    ELSE IF \E c \in DOMAIN tg : tg[c] # Zero /\ ~PoolAlive(s, tg[c])
         THEN Fail(s, "can't use a dead entity as relation target")
    ELSE
      LET recycled == Len(a.freeT) > 0
          tid == IF recycled THEN a.freeT[Len(a.freeT)] ELSE Len(s.tabs) + 1
          tgA == RestrictTo(tg, a.mask \cap RelSet)
          s1 == IF recycled
                THEN [s EXCEPT !.archs[ai].freeT = SubSeq(@, 1, Len(@) - 1),
                               !.tabs[tid].tg = tgA, !.tabs[tid].free = FALSE]
                ELSE [s EXCEPT !.tabs = Append(@, NewTable(ai, a.comps, tgA,
                                                   IF NumRel(a) > 0 THEN CapR ELSE CapN))]
          s2 == [s1 EXCEPT !.archs[ai] = AddTable(@, tid, tgA)]
      IN CacheAddTable(s2, tid)

\* find the table for (archetype `from` - rem + add, targets) or create it; returns [s, t]; t = 0 if the call panicked
FindOrCreateTable(s0, from, rem, add, tg) ==
    LET fa == FindOrCreateArchFrom(s0, from, rem, add)
        s  == fa.s
        ai == fa.a
        t  == GetTable(s, ai, tg)
    IN IF t = -1 THEN [s |-> Fail(s, "relation targets must be fully specified"), t |-> 0]
       ELSE IF t # 0 THEN [s |-> s, t |-> t]
       ELSE LET s2 == CreateTable(s, ai, tg) IN
            [s |-> s2, t |-> IF Ok(s2) THEN s2.archs[ai].tables[Len(s2.archs[ai].tables)] ELSE 0]

\* archetype.FreeTable :221-244
FreeTable(s, tid) ==
    LET ai == s.tabs[tid].arch
        a  == s.archs[ai]
        a1 == [a EXCEPT !.tables = SwapRemove(@, tid), !.freeT = Append(@, tid)]
        a2 == IF NumRel(a) <= 1 THEN a1
              ELSE [a1 EXCEPT !.relT = [c \in DOMAIN @ |-> [id \in DOMAIN @[c] |-> SwapRemove(@[c][id], tid)]],
                              !.tgtT = [id \in DOMAIN @ |-> SwapRemove(@[id], tid)]]
    IN [s EXCEPT !.archs[ai] = a2, !.tabs[tid].free = TRUE]

\* archetype.RemoveTableFromIndex: unindex a freed table whose targets are still alive (used by Shrink)
RemoveTableFromIndex(s, tid) ==
    LET ai == s.tabs[tid].arch
        t  == s.tabs[tid]
        cut(f, id) == IF id \in DOMAIN f
                      THEN (IF SwapRemove(f[id], tid) = <<>> THEN Drop(f, {id}) ELSE [f EXCEPT ![id] = SwapRemove(@, tid)])
                      ELSE f
        RECURSIVE Go(_, _)
        Go(a, i) == IF i > Len(RelCols(a)) THEN a
                    ELSE LET c == RelCols(a)[i] id == t.tg[c][1] IN
                         Go([a EXCEPT !.relT[c] = cut(@, id), !.tgtT = cut(@, id)], i + 1)
    IN [s EXCEPT !.archs[ai] = Go(@, 1)]

\* archetype.RemoveTarget :297-305
RemoveTarget(s, ai, id) ==
    [s EXCEPT !.archs[ai].relT = [c \in DOMAIN @ |-> Drop(@[c], {id})],
              !.archs[ai].tgtT = Drop(@, {id})]

\* storage.moveEntities :542-553 (src and dst may be the same table id: the code does not check)
MoveEntities(s, src, dst) ==
    LET count == TLen(s.tabs[src])
        old   == TLen(s.tabs[dst])
        d1    == TAddAll(s.tabs[dst], s.tabs[src], count, DOMAIN s.tabs[dst].col)
        s1    == [s EXCEPT !.tabs[dst] = d1]
        s2    == [s1 EXCEPT !.eidx = [p \in DOMAIN @ |->
                     IF \E j \in (old + 1)..(old + count) : d1.rows[j][1] = p + 1
                     THEN [t |-> dst, r |-> CHOOSE j \in (old + 1)..(old + count) : d1.rows[j][1] = p + 1]
                     ELSE @[p]]]
    IN [s2 EXCEPT !.tabs[src] = TReset(@)]

\* storage.cleanupArchetypes :498-539
CleanupArchetypes(s0, target) ==
    LET id == target[1]
        RECURSIVE Tables(_, _, _)
        Tables(s, ai, i) ==
            IF i = 0 \/ ~Ok(s) THEN s
            ELSE IF id \notin DOMAIN s.archs[ai].tgtT \/ i > Len(s.archs[ai].tgtT[id])
                 THEN Fail(s, "index out of range in cleanupArchetypes")
            ELSE
              LET tid == s.archs[ai].tgtT[id][i]
                  t   == s.tabs[tid]
                  ntg == [c \in DOMAIN t.tg |-> IF t.tg[c][1] = id \/ (t.tg[c] # Zero /\ ~PoolAlive(s, t.tg[c]))
                                                  THEN Zero ELSE t.tg[c]]
                  s1  == IF TLen(t) > 0
                         THEN LET g == GetTable(s, ai, ntg)
                                  r == IF g > 0 THEN [s |-> s, t |-> g]
                                       ELSE LET c == CreateTable(s, ai, ntg) IN
                                            [s |-> c, t |-> IF Ok(c) THEN c.archs[ai].tables[Len(c.archs[ai].tables)] ELSE 0]
                              IN IF Ok(r.s) THEN MoveEntities(r.s, tid, r.t) ELSE r.s
                         ELSE s
                  s2  == IF Ok(s1) THEN CacheRemoveTable(FreeTable(s1, tid), tid) ELSE s1
              IN Tables(s2, ai, i - 1)
        RECURSIVE Archs(_, _)
        Archs(s, ai) ==
            IF ai > Len(s.archs) \/ ~Ok(s) THEN s
            ELSE IF NumRel(s.archs[ai]) = 0 \/ id \notin DOMAIN s.archs[ai].tgtT THEN Archs(s, ai + 1)
            ELSE LET s1 == Tables(s, ai, Len(s.archs[ai].tgtT[id])) IN
                 Archs(IF Ok(s1) THEN RemoveTarget(s1, ai, id) ELSE s1, ai + 1)
    IN Archs(s0, 1)

RegisterTargets(s, tg) ==    \* storage.registerTargets :361-365 (the zero entity has no isTarget slot here)
    [s EXCEPT !.isTgt = [p \in DOMAIN @ |-> IF \E c \in DOMAIN tg : tg[c][1] = p + 1 THEN TRUE ELSE @[p]]]

(***************************************************************************)
(* World operations (world_internal.go, storage.go).  `h` always is the    *)
(* handle of an entity that is alive in `s` (the caller checks).           *)
(***************************************************************************)
TableOf(s, h) == s.eidx[Pos(h[1])].t
RowOf(s, h)   == s.eidx[Pos(h[1])].r
MaskOf(s, h)  == s.archs[s.tabs[TableOf(s, h)].arch].mask

\* Move one entity from its table to table `nt`, keeping the shared columns
\* (world_internal.go:76-104 add, :118-161 remove, :170-226 exchange, :405-431 setRelations)
MoveEntity(s, h, nt) ==
    LET ot   == TableOf(s, h)
        orow == RowOf(s, h)
        n1   == TAdd(s.tabs[nt], h)
        nrow == TLen(n1)
        keep == (DOMAIN s.tabs[ot].col) \cap (DOMAIN n1.col)
        n2   == [n1 EXCEPT !.col = [c \in DOMAIN @ |->
                    IF c \in keep THEN [@[c] EXCEPT ![nrow] = s.tabs[ot].col[c][orow]] ELSE @[c]]]
        s1   == [s EXCEPT !.tabs[nt] = n2]
        swapped == orow # TLen(s1.tabs[ot])
        o2   == TRemove(s1.tabs[ot], orow)
        s2   == [s1 EXCEPT !.tabs[ot] = o2]
        s3   == IF swapped THEN [s2 EXCEPT !.eidx[Pos(o2.rows[orow][1])].r = orow] ELSE s2
    IN [s3 EXCEPT !.eidx[Pos(h[1])] = [t |-> nt, r |-> nrow]]

WriteVals(s, h, vals) ==
    LET t == TableOf(s, h) r == RowOf(s, h) IN
    [s EXCEPT !.tabs[t].col = [c \in DOMAIN @ |-> IF c \in DOMAIN vals THEN [@[c] EXCEPT ![r] = vals[c]] ELSE @[c]]]

\* World.newEntity (world_internal.go:19-38): find table, Get, Add, index, registerTargets
BNew(s0, C, tg) ==
    LET r == FindOrCreateTable(s0, 1, {}, C, tg) IN
    IF ~Ok(r.s) THEN r.s
    ELSE LET h  == PoolPeek(r.s)
             s1 == PoolGet(r.s)
             s2 == [s1 EXCEPT !.tabs[r.t] = TAdd(@, h)]
             s3 == SetIndex(s2, h, r.t, TLen(s2.tabs[r.t]), FALSE)
         IN RegisterTargets(s3, tg)

\* World.newEntities + storage.createEntities (world_internal.go:42-50, storage.go:398-417)
BNewBatch(s0, n, C, tg) ==
    LET r == FindOrCreateTable(s0, 1, {}, C, tg)
        RECURSIVE Go(_, _)
        Go(s, k) == IF k = 0 THEN s
                    ELSE LET h  == PoolPeek(s)
                             s1 == PoolGet(s)
                             s2 == [s1 EXCEPT !.tabs[r.t].rows = Append(@, h)]
                         IN Go(SetIndex(s2, h, r.t, TLen(s2.tabs[r.t]), TRUE), k - 1)
    IN IF ~Ok(r.s) THEN r.s
       ELSE RegisterTargets(Go([r.s EXCEPT !.tabs[r.t] = TExtend(@, n)], n), tg)

\* World.CopyEntity (world.go:86-114)
BCopy(s, e) ==
    LET h  == PoolPeek(s)
        t  == TableOf(s, e)
        s1 == PoolGet(s)
        n1 == TAdd(s1.tabs[t], h)
        row == TLen(n1)
        n2 == [n1 EXCEPT !.col = [c \in DOMAIN n1.col |-> [n1.col[c] EXCEPT ![row] = n1.col[c][RowOf(s, e)]]]]
    IN SetIndex([s1 EXCEPT !.tabs[t] = n2], h, t, row, FALSE)

\* World.add / remove / exchange: new mask and targets, then move
BExchange(s0, h, add, rem, tg) ==
    LET ot   == s0.tabs[TableOf(s0, h)]
        ntg  == Merge(Drop(ot.tg, rem), tg)
        r    == FindOrCreateTable(s0, ot.arch, rem, add, ntg)
    IN IF ~Ok(r.s) THEN r.s ELSE RegisterTargets(MoveEntity(r.s, h, r.t), tg)

\* The storage that removal observers see (C09): World.remove / exchange have found or created the destination
\* table and run OnRemoveComponents / OnRemoveRelations BEFORE the entity is added to it
\* (world_internal.go:103-141, :155-198 as repaired; the pinned tree added the row first: RowTwice).
BRemoveCbState(s0, h, add, rem, tg) ==
    LET ot   == s0.tabs[TableOf(s0, h)]
        ntg  == Merge(Drop(ot.tg, rem), tg)
    IN FindOrCreateTable(s0, ot.arch, rem, add, ntg).s

\* every alive entity is stored in exactly one row
EntityOnce(s) ==
    \A p \in DOMAIN s.eidx : s.eidx[p].t # NoTable =>
        Cardinality({<<t, r>> \in {<<t2, r2>> \in (DOMAIN s.tabs) \X (1..8) : r2 \in DOMAIN s.tabs[t2].rows} :
                        s.tabs[t].rows[r][1] = p + 1}) = 1

\* World.setRelations (world_internal.go:368-436)
BSetRel(s0, h, tg) ==
    LET ot  == s0.tabs[TableOf(s0, h)]
        ntg == Merge(ot.tg, tg)
    IN IF ntg = ot.tg THEN s0          \* getExchangeTargets: nothing changed
       ELSE LET g == GetTable(s0, ot.arch, ntg)
                r == IF g > 0 THEN [s |-> s0, t |-> g]
                     ELSE LET c == CreateTable(s0, ot.arch, ntg) IN
                          [s |-> c, t |-> IF Ok(c) THEN c.archs[ot.arch].tables[Len(c.archs[ot.arch].tables)] ELSE 0]
            IN IF ~Ok(r.s) THEN r.s ELSE RegisterTargets(MoveEntity(r.s, h, r.t), tg)

\* storage.RemoveEntity (storage.go:245-281)
BKill(s, h) ==
    LET t    == TableOf(s, h)
        row  == RowOf(s, h)
        swapped == row # TLen(s.tabs[t])
        t2   == TRemove(s.tabs[t], row)
        s1   == PoolRecycle([s EXCEPT !.tabs[t] = t2], h)
        s2   == IF swapped THEN [s1 EXCEPT !.eidx[Pos(t2.rows[row][1])].r = row] ELSE s1
        s3   == [s2 EXCEPT !.eidx[Pos(h[1])].t = NoTable]
    IN IF s3.isTgt[Pos(h[1])]
       THEN LET s4 == CleanupArchetypes(s3, h) IN [s4 EXCEPT !.isTgt[Pos(h[1])] = FALSE]
       ELSE s3

(***************************************************************************)
(* Table selection of queries and batches.                                 *)
(***************************************************************************)
\* registry.rareComponent :124-136: the required component with the fewest archetypes (first wins a tie)
RareComp(s, with) ==
    LET ws == SortComps(with) IN
    ws[CHOOSE i \in DOMAIN ws : \A j \in DOMAIN ws : s.acnt[ws[i]] < s.acnt[ws[j]] \/ (s.acnt[ws[i]] = s.acnt[ws[j]] /\ i <= j)]

\* the archetypes a query scans: those of its rarest required component (query_gen.go nextArchetype),
\* all archetypes for a filter without required components
ScanArchs(s, flt) == IF flt.with = {} THEN [i \in DOMAIN s.archs |-> i] ELSE s.cidx[RareComp(s, flt.with)]

\* the uncached walk of queries (query_gen.go:389-437, query_count.go)
WalkTables(s, flt, tg) ==
    LET as == ScanArchs(s, flt)
        RECURSIVE Go(_, _)
        Go(k, acc) ==
            IF k > Len(as) THEN acc
            ELSE LET a == s.archs[as[k]] IN
                 IF ~MatchesComps(flt, a.mask) THEN Go(k + 1, acc)
                 ELSE IF NumRel(a) = 0 THEN Go(k + 1, Append(acc, a.tables[1]))
                 ELSE Go(k + 1, acc \o SelectSeq(GetTables(s, as[k], tg), LAMBDA t : TMatches(s.tabs[t], tg)))
    IN Go(1, <<>>)

\* storage.getCacheTables :675-699 and the uncached getBatchTables :650-671 scan all archetypes
WalkAllTables(s, flt, tg) ==
    LET RECURSIVE Go(_, _)
        Go(ai, acc) ==
            IF ai > Len(s.archs) THEN acc
            ELSE LET a == s.archs[ai] IN
                 IF ~MatchesComps(flt, a.mask) THEN Go(ai + 1, acc)
                 ELSE IF NumRel(a) = 0 THEN Go(ai + 1, Append(acc, a.tables[1]))
                 ELSE Go(ai + 1, acc \o SelectSeq(GetTables(s, ai, tg), LAMBDA t : TMatches(s.tabs[t], tg)))
    IN Go(1, <<>>)

CacheSlot(s, fid) == CHOOSE i \in DOMAIN s.cache : s.cache[i].fid = fid
IsCached(s, fid) == \E i \in DOMAIN s.cache : s.cache[i].fid = fid

\* tables visited by a query / selected by a batch for filter flt; fid # 0: registered filter
QueryTables(s, flt, fid) ==
    IF fid # 0
    THEN SelectSeq(s.cache[CacheSlot(s, fid)].tables,
                   LAMBDA t : TLen(s.tabs[t]) > 0 /\ TMatches(s.tabs[t], flt.qt))
    ELSE SelectSeq(WalkTables(s, flt, FltTargets(flt)), LAMBDA t : TLen(s.tabs[t]) > 0)

FlattenRows(s, ts) ==
    LET RECURSIVE Go(_, _)
        Go(i, acc) == IF i > Len(ts) THEN acc ELSE Go(i + 1, acc \o s.tabs[ts[i]].rows)
    IN Go(1, <<>>)

\* the entities a query yields, in order
QueryRows(s, flt, fid) == FlattenRows(s, QueryTables(s, flt, fid))

\* cache.register (cache.go:46-61) / unregister (:64-82)
BRegF(s, fid, flt) ==
    [s EXCEPT !.cache = Append(@, [fid |-> fid, flt |-> flt, tables |-> WalkAllTables(s, flt, flt.ft)])]
BUnregF(s, fid) ==
    LET i == CacheSlot(s, fid) last == Len(s.cache) IN
    [s EXCEPT !.cache = SubSeq(IF i = last THEN s.cache ELSE [s.cache EXCEPT ![i] = s.cache[last]], 1, last - 1)]

(***************************************************************************)
(* Batch operations (world_internal.go:193-345, :439-520, world.go:129-213)*)
(***************************************************************************)
\* exchangeTable :310-345: move all rows of table ot to table nt, shared columns copied
ExchangeTable(s, ot, nt, tg) ==
    LET count == TLen(s.tabs[ot])
        old   == TLen(s.tabs[nt])
        shared == (DOMAIN s.tabs[ot].col) \cap (DOMAIN s.tabs[nt].col)
        d1    == TAddAll(s.tabs[nt], s.tabs[ot], count, shared)
        s1    == [s EXCEPT !.tabs[nt] = d1,
                           !.eidx = [p \in DOMAIN @ |->
                              IF \E j \in 1..count : s.tabs[ot].rows[j][1] = p + 1
                              THEN [t |-> nt, r |-> old + (CHOOSE j \in 1..count : s.tabs[ot].rows[j][1] = p + 1)]
                              ELSE @[p]]]
        s2    == [s1 EXCEPT !.tabs[ot] = TReset(@)]
    IN RegisterTargets(s2, tg)

\* exchangeBatch: all destination tables are found/created first, then the moves
BExchangeBatch(s0, flt, fid, add, rem, tg) ==
    LET ts == QueryTables(s0, flt, fid)
        RECURSIVE Plan(_, _, _)
        Plan(s, i, acc) ==
            IF i > Len(ts) \/ ~Ok(s) THEN [s |-> s, plan |-> acc]
            ELSE LET ot   == s.tabs[ts[i]]
                     ntg  == Merge(Drop(ot.tg, rem), tg)
                     r    == FindOrCreateTable(s, ot.arch, rem, add, ntg)
                 IN Plan(r.s, i + 1, Append(acc, <<ts[i], r.t>>))
        p == Plan(s0, 1, <<>>)
        RECURSIVE Exec(_, _)
        Exec(s, i) == IF i > Len(p.plan) THEN s
                      ELSE Exec(ExchangeTable(s, p.plan[i][1], p.plan[i][2], tg), i + 1)
    IN IF ~Ok(p.s) THEN p.s ELSE Exec(p.s, 1)

\* setRelationsBatch / setRelationsTable :439-520
BSetRelBatch(s0, flt, fid, tg) ==
    LET ts == QueryTables(s0, flt, fid)
        RECURSIVE Go(_, _)
        Go(s, i) ==
            IF i > Len(ts) \/ ~Ok(s) THEN s
            ELSE LET ot  == s.tabs[ts[i]]
                     ntg == Merge(ot.tg, tg)
                 IN IF ntg = ot.tg \/ TLen(ot) = 0 THEN Go(s, i + 1)
                    ELSE LET g == GetTable(s, ot.arch, ntg)
                             r == IF g > 0 THEN [s |-> s, t |-> g]
                                  ELSE LET c == CreateTable(s, ot.arch, ntg) IN
                                       [s |-> c, t |-> IF Ok(c) THEN c.archs[ot.arch].tables[Len(c.archs[ot.arch].tables)] ELSE 0]
                         IN Go(IF Ok(r.s) THEN MoveEntities(r.s, ts[i], r.t) ELSE r.s, i + 1)
    IN RegisterTargets(Go(s0, 1), tg)

\* World.RemoveEntities :129-213: recycle all, reset the tables, then the deferred target cleanup
BKillBatch(s0, flt, fid) ==
    LET ts == QueryTables(s0, flt, fid)
        RECURSIVE Rows(_, _, _, _)
        Rows(s, t, j, cl) ==
            IF j > TLen(s.tabs[t]) THEN [s |-> s, cl |-> cl]
            ELSE LET h == s.tabs[t].rows[j] IN
                 Rows(PoolRecycle([s EXCEPT !.eidx[Pos(h[1])].t = NoTable], h), t, j + 1,
                      IF s.isTgt[Pos(h[1])] THEN Append(cl, h) ELSE cl)
        RECURSIVE Tabs(_, _, _)
        Tabs(s, i, cl) ==
            IF i > Len(ts) THEN [s |-> s, cl |-> cl]
            ELSE LET r == Rows(s, ts[i], 1, cl) IN
                 Tabs([r.s EXCEPT !.tabs[ts[i]] = TReset(@)], i + 1, r.cl)
        a == Tabs(s0, 1, <<>>)
        RECURSIVE Clean(_, _)
        Clean(s, i) ==
            IF i > Len(a.cl) \/ ~Ok(s) THEN s
            ELSE LET s1 == CleanupArchetypes(s, a.cl[i]) IN
                 Clean(IF Ok(s1) THEN [s1 EXCEPT !.isTgt[Pos(a.cl[i][1])] = FALSE] ELSE s1, i + 1)
    IN Clean(a.s, 1)

(***************************************************************************)
(* World lock: bit pool and lock mask (pool.go:91-152, lock.go).  Bits are *)
(* numbered from 0; position b+1 of lk.bits holds the link of bit b.       *)
(***************************************************************************)
LockFull(s) == s.lk.avail = 0 /\ s.lk.len >= MaxLocks

BitPeek(s) == IF s.lk.avail = 0 THEN s.lk.len ELSE s.lk.next

LockGet(s) ==          \* lock.Lock / LockSafe: bitPool.Get + locks.Set
    IF s.lk.avail = 0
    THEN [s EXCEPT !.lk.bits[s.lk.len + 1] = s.lk.len, !.lk.len = @ + 1, !.lk.mask = @ \cup {s.lk.len}]
    ELSE LET cur == s.lk.next IN
         [s EXCEPT !.lk.next = s.lk.bits[cur + 1], !.lk.bits[cur + 1] = cur, !.lk.avail = @ - 1,
                   !.lk.mask = @ \cup {cur}]

LockPut(s, b) ==       \* lock.Unlock / UnlockSafe: panics if the bit is not set
    IF b \notin s.lk.mask THEN Fail(s, "unbalanced unlock")
    ELSE [s EXCEPT !.lk.mask = @ \ {b}, !.lk.bits[b + 1] = s.lk.next, !.lk.next = b, !.lk.avail = @ + 1]

IsLockedB(s) == s.lk.mask # {}

\* queries: the rows still to be yielded are fixed while the world is locked
BQOpen(s, q, flt, fid) ==
    LET b == BitPeek(s) IN
    [LockGet(s) EXCEPT !.qs = Merge(@, Single(q, [bit |-> b, rows |-> QueryRows(s, flt, fid)]))]
BQNext(s, q) ==        \* yields Head(rows); on exhaustion the query closes itself
    IF s.qs[q].rows = <<>> THEN [LockPut(s, s.qs[q].bit) EXCEPT !.qs = Drop(@, {q})]
    ELSE [s EXCEPT !.qs[q].rows = Tail(@)]
BQClose(s, q) == [LockPut(s, s.qs[q].bit) EXCEPT !.qs = Drop(@, {q})]

\* C07: the bit pool is well formed; held bits are distinct; locked iff a query is open
LockOK(s) ==
    LET held == {s.qs[q].bit : q \in DOMAIN s.qs}
        RECURSIVE Walk(_, _, _)
        Walk(b, k, seen) == IF k = 0 THEN seen
                            ELSE IF b < 0 \/ b >= s.lk.len \/ b \in seen THEN {-1}
                            ELSE Walk(s.lk.bits[b + 1], k - 1, seen \cup {b})
    IN /\ s.lk.mask = held
       /\ Cardinality(held) = Cardinality(DOMAIN s.qs)
       /\ s.lk.len <= MaxLocks
       /\ Walk(s.lk.next, s.lk.avail, {}) = (0..(s.lk.len - 1)) \ held

(***************************************************************************)
(* Shrink (storage.go:703-750) and Reset (storage.go:284-295).             *)
(***************************************************************************)
\* mode "all": no time limit; mode "one": stopAfter = 0 (stop after the first table with work)
BShrink(s0, mode) ==
    LET RECURSIVE Go(_, _)
        Go(s, i) ==
            IF i > Len(s.tabs) THEN s
            ELSE LET t == s.tabs[i]
                     isRel == DOMAIN t.tg # {}
                     minc == IF isRel THEN CapR ELSE CapN
                     f1 == TCanShrink(t, minc)
                     s1 == [s EXCEPT !.tabs[i] = TShrink(@, minc)]
                     f2 == isRel /\ ~t.free /\ TLen(t) = 0
                     s2 == IF f2 THEN CacheRemoveTable(RemoveTableFromIndex(FreeTable(s1, i), i), i) ELSE s1
                 IN IF (f1 \/ f2) /\ mode = "one" THEN s2 ELSE Go(s2, i + 1)
    IN Go(s0, 1)

\* the boolean Shrink returns: is there work left behind the cut-off (only mode "one" can leave work)
ShrinkHasWork(s) ==
    \E i \in DOMAIN s.tabs :
        LET t == s.tabs[i] isRel == DOMAIN t.tg # {} IN
        TCanShrink(t, IF isRel THEN CapR ELSE CapN) \/ (isRel /\ ~t.free /\ TLen(t) = 0)

BReset(s) ==
    LET RECURSIVE Go(_, _)
        Go(st, ai) ==
            IF ai > Len(st.archs) THEN st
            ELSE LET a == st.archs[ai]
                     st1 == [st EXCEPT !.tabs = [t \in DOMAIN @ |->
                                 IF t \in SetOf(a.tables) THEN TReset(@[t]) ELSE @[t]]]
                 IN IF NumRel(a) = 0 THEN Go(st1, ai + 1)
                    ELSE Go([st1 EXCEPT !.tabs = [t \in DOMAIN @ |->
                                    IF t \in SetOf(a.tables) THEN [@[t] EXCEPT !.free = TRUE] ELSE @[t]],
                                        !.archs[ai] = [a EXCEPT !.freeT = @ \o a.tables, !.tables = <<>>,
                                                                !.relT = [c \in DOMAIN @ |-> EmptyFn],
                                                                !.tgtT = EmptyFn]], ai + 1)
    IN Go([s EXCEPT !.pool = <<>>, !.pnext = 0, !.pavail = 0, !.eidx = <<>>, !.isTgt = <<>>, !.cache = <<>>,
                    !.res = EmptyFn,      \* Resources.reset (resources.go:64-68), called by World.Reset
                    !.lk = [bits |-> [i \in 1..MaxLocks |-> 0], len |-> 0, next |-> 0, avail |-> 0, mask |-> {}],
                    !.qs = EmptyFn], 1)

(***************************************************************************)
(* Resources (resources.go:23-62): a slot per resource id, nil = absent.   *)
(***************************************************************************)
BResAdd(s, t, v)  == IF t \in DOMAIN s.res THEN Fail(s, "resource was already added")
                     ELSE [s EXCEPT !.res = Merge(@, Single(t, v))]
BResRemove(s, t)  == IF t \notin DOMAIN s.res THEN Fail(s, "resource is not present")
                     ELSE [s EXCEPT !.res = Drop(@, {t})]
BResSet(s, t, v)  == [s EXCEPT !.res[t] = v]      \* a write through the pointer Get returns

(***************************************************************************)
(* Unsafe.DumpEntities / LoadEntities (unsafe.go:145-206).                 *)
(***************************************************************************)
\* the dump: the pool as it is (free list threaded through it), the ids a Filter0 query yields (all archetypes in
\* order, their tables in order, rows in order), next, available
BDump(s) ==
    LET RECURSIVE Rows(_, _)
        Rows(ai, acc) == IF ai > Len(s.archs) THEN acc
                         ELSE Rows(ai + 1, acc \o FlattenRows(s, SelectSeq(s.archs[ai].tables, LAMBDA t : TLen(s.tabs[t]) > 0)))
    IN [ents |-> s.pool, alive |-> [i \in DOMAIN Rows(1, <<>>) |-> Rows(1, <<>>)[i][1]], next |-> s.pnext, avail |-> s.pavail]

\* s0: a fresh or reset storage.  The pool is replaced by the dumped one; the entity index is rebuilt: every
\* dumped alive id is appended to table 0 (the table of the archetype without components) with the generation
\* the pool holds.  Deviation, named: the code leaves the zero value {table 0, row 0} in storage.entities for
\* dead ids where removal writes maxTableID; nothing ever reads the index of a dead id (maxTableID is only
\* written, never compared), so the model marks them NoTable as everywhere else.
BLoad(s0, d) ==
    IF Len(s0.pool) > 0 \/ s0.pavail > 0 THEN Fail(s0, "can set entity data only on a fresh or reset world")
    ELSE LET n == Len(d.ents)
             s1 == [s0 EXCEPT !.pool = d.ents, !.pnext = d.next, !.pavail = d.avail,
                              !.eidx = [i \in 1..n |-> [t |-> NoTable, r |-> 0]],
                              !.isTgt = [i \in 1..n |-> FALSE],
                              !.tabs[1] = TExtend(@, Len(d.alive))]
             RECURSIVE Go(_, _)
             Go(st, k) == IF k > Len(d.alive) THEN st
                          ELSE LET id == d.alive[k] h == <<id, st.pool[Pos(id)].gen>>
                                   t1 == TAdd(st.tabs[1], h) IN
                               Go([st EXCEPT !.tabs[1] = t1, !.eidx[Pos(id)] = [t |-> 1, r |-> TLen(t1)]], k + 1)
         IN Go(s1, 1)

(***************************************************************************)
(* Abstraction: the layer-A entities represented by a storage.             *)
(***************************************************************************)
AliveHandles(s) == {<<p + 1, s.pool[p].gen>> : p \in {q \in DOMAIN s.eidx : s.eidx[q].t # NoTable}}

AbsEnt(s) ==
    [h \in AliveHandles(s) |->
        LET t == s.tabs[TableOf(s, h)] r == RowOf(s, h) IN
        [c |-> DOMAIN t.col, v |-> [c \in DOMAIN t.col |-> t.col[c][r]], t |-> t.tg]]

(***************************************************************************)
(* Structural invariants of layer B.                                       *)
(***************************************************************************)
\* C01/C02: the entity index and the tables agree; every row belongs to exactly one live entity
IndexOK(s) ==
    /\ Len(s.eidx) = Len(s.pool) /\ Len(s.isTgt) = Len(s.pool)
    /\ \A p \in DOMAIN s.eidx : s.eidx[p].t # NoTable =>
          /\ s.eidx[p].t \in DOMAIN s.tabs
          /\ s.eidx[p].r \in DOMAIN s.tabs[s.eidx[p].t].rows
          /\ s.tabs[s.eidx[p].t].rows[s.eidx[p].r] = <<p + 1, s.pool[p].gen>>
          /\ ~s.tabs[s.eidx[p].t].free
    /\ \A t \in DOMAIN s.tabs : \A r \in DOMAIN s.tabs[t].rows :
          LET h == s.tabs[t].rows[r] IN
          h[1] >= 2 /\ Pos(h[1]) <= Len(s.eidx) /\ s.eidx[Pos(h[1])] = [t |-> t, r |-> r]

\* C02: the free list threaded through the pool visits exactly the dead ids, once each
FreeListOK(s) ==
    LET dead == {p \in DOMAIN s.pool : s.eidx[p].t = NoTable}
        RECURSIVE Walk(_, _, _)
        Walk(id, k, seen) == IF k = 0 THEN seen
                             ELSE IF id < 2 \/ Pos(id) > Len(s.pool) \/ Pos(id) \in seen THEN {-1}
                             ELSE Walk(s.pool[Pos(id)].link, k - 1, seen \cup {Pos(id)})
    IN /\ s.pavail = Cardinality(dead)
       /\ Walk(s.pnext, s.pavail, {}) = dead
       /\ \A p \in (DOMAIN s.pool) \ dead : s.pool[p].link = p + 1

\* C11: the memory beyond a table's length is zero; capacity covers the rows
SpareCellsZero(s) ==
    \A t \in DOMAIN s.tabs : /\ TLen(s.tabs[t]) <= s.tabs[t].cap
                            /\ \A c \in DOMAIN s.tabs[t].col :
                                 /\ Len(s.tabs[t].col[c]) = s.tabs[t].cap
                                 /\ \A j \in (TLen(s.tabs[t]) + 1)..s.tabs[t].cap : s.tabs[t].col[c][j] = 0

\* one archetype per mask; one active table per (archetype, targets); free tables are empty
TablesOK(s) ==
    /\ \A i, j \in DOMAIN s.archs : s.archs[i].mask = s.archs[j].mask => i = j
    /\ \A t \in DOMAIN s.tabs :
         LET a == s.archs[s.tabs[t].arch] IN
         /\ s.tabs[t].free <=> t \in SetOf(a.freeT)
         /\ ~s.tabs[t].free <=> t \in SetOf(a.tables)
         /\ s.tabs[t].free => TLen(s.tabs[t]) = 0
         /\ DOMAIN s.tabs[t].col = a.mask
         /\ DOMAIN s.tabs[t].tg = a.mask \cap RelSet
    /\ \A i \in DOMAIN s.archs :
         /\ \A j, k \in DOMAIN s.archs[i].tables : s.archs[i].tables[j] = s.archs[i].tables[k] => j = k
         /\ \A j, k \in DOMAIN s.archs[i].freeT : s.archs[i].freeT[j] = s.archs[i].freeT[k] => j = k
         /\ \A j, k \in DOMAIN s.archs[i].tables :
                s.tabs[s.archs[i].tables[j]].tg = s.tabs[s.archs[i].tables[k]].tg => j = k

\* C04: a table is indexed under target id x for column c iff it is active and its target for c has id x;
\* every target of an active non-empty table is the zero entity or alive and flagged as a target
RelIndexOK(s) ==
    \A i \in DOMAIN s.archs :
      LET a == s.archs[i] IN
      /\ \A c \in DOMAIN a.relT : \A id \in DOMAIN a.relT[c] :
            /\ \A k, l \in DOMAIN a.relT[c][id] : a.relT[c][id][k] = a.relT[c][id][l] => k = l
            /\ \A k \in DOMAIN a.relT[c][id] :
                  LET t == a.relT[c][id][k] IN ~s.tabs[t].free /\ s.tabs[t].arch = i /\ s.tabs[t].tg[c][1] = id
      /\ \A id \in DOMAIN a.tgtT :
            /\ \A k, l \in DOMAIN a.tgtT[id] : a.tgtT[id][k] = a.tgtT[id][l] => k = l
            /\ \A k \in DOMAIN a.tgtT[id] :
                  LET t == a.tgtT[id][k] IN ~s.tabs[t].free /\ s.tabs[t].arch = i
                                            /\ \E c \in DOMAIN s.tabs[t].tg : s.tabs[t].tg[c][1] = id
      /\ \A k \in DOMAIN a.tables :
            LET t == a.tables[k] IN
            \A c \in DOMAIN s.tabs[t].tg :
               LET id == s.tabs[t].tg[c][1] IN
               /\ id \in DOMAIN a.relT[c] /\ t \in SetOf(a.relT[c][id])
               /\ id \in DOMAIN a.tgtT /\ t \in SetOf(a.tgtT[id])
               /\ (TLen(s.tabs[t]) > 0 /\ id # 0) => (PoolAlive(s, s.tabs[t].tg[c]) /\ s.isTgt[Pos(id)])

\* C05: every cache entry lists exactly the active tables the uncached walk finds, once each
CacheOK(s) ==
    \A i \in DOMAIN s.cache :
       LET e == s.cache[i] fresh == WalkAllTables(s, e.flt, e.flt.ft) IN
       /\ \A k, l \in DOMAIN e.tables : e.tables[k] = e.tables[l] => k = l
       /\ SetOf(e.tables) = SetOf(fresh)

\* C01: the archetype graph: node masks are unique, an edge over c joins masks that differ exactly by c (both
\* directions), a node's archetype has the node's mask, every archetype has a node
GraphOK(s) ==
    /\ \A i, j \in DOMAIN s.graph : s.graph[i].mask = s.graph[j].mask => i = j
    /\ \A i \in DOMAIN s.graph : \A c \in DOMAIN s.graph[i].nbr :
          LET j == s.graph[i].nbr[c] IN
          /\ j \in DOMAIN s.graph
          /\ (s.graph[j].mask = s.graph[i].mask \cup {c} \/ s.graph[j].mask = s.graph[i].mask \ {c})
          /\ s.graph[j].mask # s.graph[i].mask
          /\ c \in DOMAIN s.graph[j].nbr /\ s.graph[j].nbr[c] = i
    /\ \A i \in DOMAIN s.graph : s.graph[i].arch # 0 =>
          s.graph[i].arch \in DOMAIN s.archs /\ s.archs[s.graph[i].arch].mask = s.graph[i].mask
    /\ \A a \in DOMAIN s.archs : s.archs[a].node \in DOMAIN s.graph /\ s.graph[s.archs[a].node].arch = a

\* C03: the component index lists, for each component, exactly the archetypes containing it (once), and the
\* archetype counts used to pick the rarest component agree with it
CompIndexOK(s) ==
    \A c \in Comps :
        /\ SetOf(s.cidx[c]) = {a \in DOMAIN s.archs : c \in s.archs[a].mask}
        /\ Len(s.cidx[c]) = Cardinality(SetOf(s.cidx[c]))
        /\ s.acnt[c] = Len(s.cidx[c])

\* C15 (capacity clause), evaluated right after an unbounded Shrink
CapBoundsOK(s) ==
    \A t \in DOMAIN s.tabs :
        LET minc == IF DOMAIN s.tabs[t].tg # {} THEN CapR ELSE CapN IN
        s.tabs[t].cap >= TLen(s.tabs[t]) /\ ~TCanShrink(s.tabs[t], minc)

=============================================================================
