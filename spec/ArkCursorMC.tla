----------------------------- MODULE ArkCursorMC -----------------------------
(***************************************************************************)
(* Every call sequence (Next / Get / Close, up to MaxCalls calls) on a     *)
(* fresh query, cached and uncached, over a set of table layouts; the      *)
(* operators and the properties are explained in ArkCursor.                *)
(***************************************************************************)
EXTENDS ArkCursor

CONSTANTS Layouts, MaxCalls

VARIABLES lay, cached, q, yields, ncalls, byClose
cvars == <<lay, cached, q, yields, ncalls, byClose>>

Init == /\ lay \in Layouts /\ cached \in BOOLEAN /\ q = Q0 /\ yields = <<>> /\ ncalls = 0 /\ byClose = FALSE

Call(c) ==
    /\ ncalls < MaxCalls
    /\ LET r == Step(q, lay, cached, c) IN
       /\ q' = r.q
       /\ yields' = IF c = "Next" /\ ~r.panic /\ r.res = 1 THEN Append(yields, GetQ(r.q)) ELSE yields
       /\ byClose' = (byClose \/ (c = "Close" /\ ~IsClosed(q)))
    /\ ncalls' = ncalls + 1
    /\ UNCHANGED <<lay, cached>>

Next == \E c \in {"Next", "Get", "Close"} : Call(c)
Spec == Init /\ [][Next]_cvars

IsPrefixOf(s, t) == Len(s) <= Len(t) /\ \A i \in DOMAIN s : s[i] = t[i]

BuildsAgree == /\ NextPanicsDebug(q) = NextPanicsNoDebug(q)
               /\ GetPanicsDebug(q) = GetPanicsNoDebug(q)
LockExact == /\ q.lock = ~IsClosed(q)
             /\ q.unlocks = (IF IsClosed(q) THEN 1 ELSE 0)
YieldsExact == /\ IsPrefixOf(yields, Expected(lay))
               /\ (IsClosed(q) /\ ~byClose) => yields = Expected(lay)
ClosedIsFinal == IsClosed(q) => /\ Step(q, lay, cached, "Next").panic
                                /\ Step(q, lay, cached, "Get").panic
                                /\ Step(q, lay, cached, "Close").q = q
\* inside a table the cursor stays within its rows
CursorInRange == q.cur # NoTable => (q.idx <= q.max /\ q.max = Len(q.cur) - 1 /\ q.tab >= 0)

=============================================================================
