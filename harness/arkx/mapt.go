package arkx

import (
	"github.com/mlange-42/ark/ecs"
)

// tmT wraps the hand-written single-component mapper ecs.Map[T] (not the generated Map1).
type tmT[A any, PA PT[A]] struct{ m *ecs.Map[A] }

func (t *tmT[A, PA]) Arity() int { return 1 }
func (t *tmT[A, PA]) val(vals []int64) *A {
	va := new(A)
	*PA(va).P() = vals[0]
	syncRich(PA(va))
	return va
}
func (t *tmT[A, PA]) NewEntity(vals []int64, rels []ecs.Relation) ecs.Entity {
	return t.m.NewEntity(t.val(vals), targetsOf(rels)...)
}
func (t *tmT[A, PA]) NewEntityFn(fn func(ps []*int64), rels []ecs.Relation) ecs.Entity {
	if fn == nil {
		return t.m.NewEntityFn(nil, targetsOf(rels)...)
	}
	return t.m.NewEntityFn(func(pa *A) { fn([]*int64{PA(pa).P()}) }, targetsOf(rels)...)
}
func (t *tmT[A, PA]) NewBatch(cnt int, vals []int64, rels []ecs.Relation) {
	t.m.NewBatch(cnt, t.val(vals), targetsOf(rels)...)
}
func (t *tmT[A, PA]) NewBatchFn(cnt int, fn func(e ecs.Entity, ps []*int64), rels []ecs.Relation) {
	if fn == nil {
		t.m.NewBatchFn(cnt, nil, targetsOf(rels)...)
		return
	}
	t.m.NewBatchFn(cnt, func(e ecs.Entity, pa *A) { fn(e, []*int64{PA(pa).P()}) }, targetsOf(rels)...)
}
func (t *tmT[A, PA]) Get(e ecs.Entity) []*int64 { return []*int64{nilOr[A, PA](t.m.Get(e))} }
func (t *tmT[A, PA]) HasAll(e ecs.Entity) bool  { return t.m.Has(e) }
func (t *tmT[A, PA]) Add(e ecs.Entity, vals []int64, rels []ecs.Relation) {
	t.m.Add(e, t.val(vals), targetsOf(rels)...)
}
func (t *tmT[A, PA]) AddFn(e ecs.Entity, fn func(ps []*int64), rels []ecs.Relation) {
	if fn == nil {
		t.m.AddFn(e, nil, targetsOf(rels)...)
		return
	}
	t.m.AddFn(e, func(pa *A) { fn([]*int64{PA(pa).P()}) }, targetsOf(rels)...)
}
func (t *tmT[A, PA]) Set(e ecs.Entity, vals []int64) { t.m.Set(e, t.val(vals)) }
func (t *tmT[A, PA]) AddBatch(b ecs.Batch, vals []int64, rels []ecs.Relation) {
	t.m.AddBatch(b, t.val(vals), targetsOf(rels)...)
}
func (t *tmT[A, PA]) AddBatchFn(b ecs.Batch, fn func(e ecs.Entity, ps []*int64), rels []ecs.Relation) {
	if fn == nil {
		t.m.AddBatchFn(b, nil, targetsOf(rels)...)
		return
	}
	t.m.AddBatchFn(b, func(e ecs.Entity, pa *A) { fn(e, []*int64{PA(pa).P()}) }, targetsOf(rels)...)
}
func (t *tmT[A, PA]) Remove(e ecs.Entity)                            { t.m.Remove(e) }
func (t *tmT[A, PA]) RemoveBatch(b ecs.Batch, fn func(e ecs.Entity)) { t.m.RemoveBatch(b, fn) }
func (t *tmT[A, PA]) GetRelation(e ecs.Entity, idx int) ecs.Entity   { return t.m.GetRelation(e) }
func (t *tmT[A, PA]) SetRelations(e ecs.Entity, rels []ecs.Relation) {
	t.m.SetRelation(e, targetsOf(rels)[0])
}
func (t *tmT[A, PA]) SetRelationsBatch(b ecs.Batch, fn func(e ecs.Entity), rels []ecs.Relation) {
	t.m.SetRelationBatch(b, targetsOf(rels)[0], fn)
}

// targetsOf extracts the target entities of relations built by mapTRels.
func targetsOf(rels []ecs.Relation) []ecs.Entity {
	r := []ecs.Entity{}
	for i := range rels {
		r = append(r, mapTTargets[i])
	}
	return r
}

// mapTTargets is set by the executor right before a call into ecs.Map[T] (single goroutine).
var mapTTargets []ecs.Entity

var mapTCtors = map[string]func(w *ecs.World) TypedMap{
	"A": func(w *ecs.World) TypedMap { return &tmT[CA, *CA]{m: ecs.NewMap[CA](w)} },
	"B": func(w *ecs.World) TypedMap { return &tmT[CB, *CB]{m: ecs.NewMap[CB](w)} },
	"C": func(w *ecs.World) TypedMap { return &tmT[CC, *CC]{m: ecs.NewMap[CC](w)} },
	"R": func(w *ecs.World) TypedMap { return &tmT[CR, *CR]{m: ecs.NewMap[CR](w)} },
	"S": func(w *ecs.World) TypedMap { return &tmT[CS, *CS]{m: ecs.NewMap[CS](w)} },
	"P": func(w *ecs.World) TypedMap { return &tmT[CP, *CP]{m: ecs.NewMap[CP](w)} },
	"Q": func(w *ecs.World) TypedMap { return &tmT[CQ, *CQ]{m: ecs.NewMap[CQ](w)} },
}
