package arkx

import (
	"sort"

	"github.com/mlange-42/ark/ecs"
)

// Unbatched execution (C06, differential): a batch operation is replaced by the single-entity operations it
// abbreviates - the selection is read with a query of the same filter, then Add / Remove / Exchange /
// SetRelations / RemoveEntity is applied to every selected entity through the same API path.  The log has the
// same shape as that of the batched execution (one event per batch operation); ArkProd compares the pair.
//
// The replacement is only made when the single-entity calls are certainly valid (the preconditions of the batch
// hold for every selected entity, and the selection is not empty); otherwise the real batch call is made, so
// that both executions of the product coincide.

func (x *Exec) selection(rf *regFilter, qt map[string]ecs.Entity) []ecs.Entity {
	es := []ecs.Entity{}
	if rf.f0 != nil {
		q := rf.f0.Query(x.unsafeRels(qt)...)
		for q.Next() {
			es = append(es, q.Entity())
		}
		return es
	}
	q := rf.tf.Query(x.typedRels(rf.ids, qt)...)
	for q.Next() {
		es = append(es, q.Entity())
	}
	return es
}

func (x *Exec) compsOf(e ecs.Entity) map[string]bool {
	has := map[string]bool{}
	ids := x.w.Unsafe().IDs(e)
	for i := 0; i < ids.Len(); i++ {
		has[x.names[ids.Get(i)]] = true
	}
	return has
}

// unbatch executes a batch operation entity by entity; false: not applicable, make the batch call.
func (x *Exec) unbatch(op GenOp, tg map[string]ecs.Entity, lo *LogOp) bool {
	w := x.w
	if w.IsLocked() {
		return false
	}
	for _, t := range tg {
		if !t.IsZero() && !w.Alive(t) {
			return false
		}
	}
	for _, t := range x.tgMap(op.Flt.Qt) {
		if !t.IsZero() && !w.Alive(t) {
			return false
		}
	}
	for _, t := range x.tgMap(op.Flt.Ft) {
		if !t.IsZero() && !w.Alive(t) {
			return false
		}
	}
	// relation targets must be given for exactly the added relation components
	nrel := 0
	for _, c := range op.Add {
		if isRelName(c) {
			nrel++
			if _, ok := tg[c]; !ok {
				return false
			}
		}
	}
	if (op.Op == "AddBatch" || op.Op == "ExchangeBatch") && nrel != len(tg) {
		return false
	}
	if (op.Op == "AddBatch" || op.Op == "ExchangeBatch") && len(op.Add) == 0 {
		return false
	}
	if op.Op == "RemoveBatch" && len(op.Rem) == 0 {
		return false
	}
	if op.Op == "SetRelBatch" && len(tg) == 0 {
		return false
	}
	rf := x.filterFor(op.F, op.Flt)
	sel := x.selection(rf, x.tgMap(op.Flt.Qt))
	if len(sel) == 0 {
		return false
	}
	for _, e := range sel {
		has := x.compsOf(e)
		for _, c := range op.Add {
			if has[c] {
				return false
			}
		}
		for _, c := range op.Rem {
			if !has[c] {
				return false
			}
		}
		if op.Op == "SetRelBatch" {
			for c := range tg {
				if !has[c] {
					return false
				}
			}
		}
	}
	seen := map[string]bool{}
	for _, c := range append(append([]string{}, op.Add...), op.Rem...) {
		if seen[c] {
			return false
		}
		seen[c] = true
	}
	unsafePath := x.Cfg.Path == "unsafe"
	switch op.Op {
	case "AddBatch", "ExchangeBatch":
		tuple := x.canon(op.Add)
		if len(tuple) > 8 && (op.Op == "ExchangeBatch" || x.Cfg.Path == "exchange") {
			return false
		}
		vs := valsFor(tuple, op.Vals)
		for _, h := range sel {
			h := h
			fn := func(ps []*int64) {
				bv := BVal{E: h, V: map[string]int64{}}
				for i := range ps {
					v := 100000 + 100*int64(x.ordOf(h)) + int64(x.compIndex(tuple[i])) + 3
					x.put(tuple[i], ps[i], v)
					bv.V[tuple[i]] = v
				}
				lo.Bvals = append(lo.Bvals, bv)
			}
			rels := x.typedRels(tuple, tg)
			switch {
			case op.Op == "AddBatch" && x.Cfg.Path != "exchange" && op.Mode == "val":
				x.mapFor(tuple).Add(h, vs, rels)
			case op.Op == "AddBatch" && x.Cfg.Path != "exchange":
				x.mapFor(tuple).AddFn(h, fn, rels)
			case op.Op == "AddBatch" && op.Mode == "val":
				x.exFor(tuple, nil).Add(h, vs, rels)
			case op.Op == "AddBatch":
				x.exFor(tuple, nil).AddFn(h, fn, rels)
			case op.Mode == "val":
				x.exFor(tuple, op.Rem).Exchange(h, vs, rels)
			default:
				x.exFor(tuple, op.Rem).ExchangeFn(h, fn, rels)
			}
		}
	case "RemoveBatch":
		for _, h := range sel {
			if op.Mode != "val" {
				lo.Bvals = append(lo.Bvals, BVal{E: h, V: map[string]int64{}})
			}
			switch {
			case unsafePath:
				w.Unsafe().Remove(h, x.idsOf(op.Rem)...)
			case x.Cfg.Path == "exchange":
				x.exFor(x.anyExTuple(), op.Rem).Remove(h)
			default:
				x.mapFor(x.canon(op.Rem)).Remove(h)
			}
		}
	case "SetRelBatch":
		keys := []string{}
		for k := range tg {
			keys = append(keys, k)
		}
		sort.Strings(keys)
		tuple := x.relTuple(keys, op.Tup)
		for _, h := range sel {
			if unsafePath {
				w.Unsafe().SetRelations(h, x.unsafeRels(tg)...)
			} else {
				x.mapFor(tuple).SetRelations(h, x.typedRels(tuple, tg))
			}
			lo.Bvals = append(lo.Bvals, BVal{E: h, V: map[string]int64{}})
		}
	case "KillBatch":
		for _, h := range sel {
			lo.Bvals = append(lo.Bvals, BVal{E: h, V: map[string]int64{}})
			w.RemoveEntity(h)
		}
	default:
		return false
	}
	return true
}
