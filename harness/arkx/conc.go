package arkx

import (
	"sort"
	"sync"
	"time"

	"github.com/mlange-42/ark/ecs"
)

// ConcRun (C13): builds a world through logged operations, then lets goroutines create, iterate, count and
// close queries at the same time - sharing one filter or using several, registered or not, with or without
// relation targets.  Every goroutine's results are logged as probes (api "conc") for the monitor; the final
// lock state as a probe with api "conc-end".  The binary is built with the race detector by the check.
func (x *Exec) ConcRun(goroutines, rounds int) []GenOp {
	x.seq++
	x.newWorld()
	x.emit(LogReset{K: "reset", Seq: x.seq, Rel: x.relNames(), Cfg: x.Cfg, Note: "conc"})
	done := []GenOp{}
	mkop := func(op string) GenOp {
		return GenOp{Op: op, Add: []string{}, Rem: []string{}, Vals: FlexMap[int64]{}, Tg: FlexMap[int]{}, N: 1, Mode: "val",
			Flt: GenFlt{With: []string{}, Without: []string{}, Ft: FlexMap[int]{}, Qt: FlexMap[int]{}}}
	}
	if x.rng.Intn(2) == 0 {
		// 0. every other run: the world has a past - entities, a few queries run to their end (lock bits taken and
		// released, one of them nested), then World.Reset; the concurrent phase runs on the reset world
		for i := 0; i < 5; i++ {
			if op, ok := x.randomOp(40); ok && op.Op != "Reset" && op.Op != "DumpLoad" && op.Op != "Load" && op.Op != "QOpen" {
				done = append(done, op)
				if lo := x.run(op, -10+i); lo.Panic {
					x.emit(lo)
					return done
				} else {
					x.emit(lo)
				}
			}
		}
		api := "typed"
		if x.Cfg.Path == "unsafe" {
			api = "unsafe"
		}
		all := GenFlt{With: []string{}, Without: []string{}, Ft: FlexMap[int]{}, Qt: FlexMap[int]{}}
		x.emit(x.probe(0, all, api))
		func() {
			outer := ecs.NewFilter0(x.w).Query()
			for outer.Next() {
				inner := ecs.NewFilter0(x.w).Query()
				for inner.Next() {
				}
			}
		}()
		rs := mkop("Reset")
		done = append(done, rs)
		x.emit(x.run(rs, -1))
	}
	// 1. a world: some dozens of entities, a few relation targets, a few structural changes
	n := 60 + x.rng.Intn(60)
	for i := 1; i <= n; i++ {
		op, ok := x.randomOp(40)
		if !ok || op.Op == "Reset" || op.Op == "DumpLoad" || op.Op == "QOpen" {
			continue
		}
		done = append(done, op)
		lo := x.run(op, i)
		x.emit(lo)
		if lo.Panic {
			return done
		}
	}
	vs := x.view()
	// 2. filters: shared objects (first use happens concurrently: the hint is stale), half of them registered
	type shared struct {
		rf  *regFilter
		flt GenFlt
		f   int
	}
	sh := []shared{}
	for k := 0; k < 4; k++ {
		flt := x.randomFilter(vs, "")
		flt.Qt = FlexMap[int]{}
		rf, err := x.buildFilter(flt.With, flt.Without, flt.Excl, x.tgMap(flt.Ft))
		if err != nil {
			continue
		}
		s := shared{rf: rf, flt: flt}
		if k >= 2 {
			// the filter object was used for a batch with a relation target before (its relation slice has been extended)
			bq := map[string]ecs.Entity{}
			for _, c := range flt.With {
				if _, fixed := flt.Ft[c]; isRelName(c) && !fixed {
					bq[c] = x.ent(x.pickTarget(vs))
				}
			}
			if len(bq) > 0 {
				_ = x.batchOf(rf, bq)
			}
		}
		if k%2 == 1 {
			rf.flt = flt
			rf.register()
			s.f = 100 + k
			x.filters[s.f] = rf
			// tell the monitor about the registration
			op := GenOp{Op: "RegF", F: s.f, Flt: flt, Add: []string{}, Rem: []string{}, Vals: FlexMap[int64]{}, Tg: FlexMap[int]{}, N: 1, Mode: "conc"}
			lo := LogOp{K: "op", I: n + k + 1, Op: "RegF", Add: []string{}, Rem: []string{}, Vals: map[string]int64{}, Tg: map[string]ecs.Entity{},
				N: 1, F: s.f, Flt: x.logFlt(flt), Mode: "conc", Ret: []ecs.Entity{}, Bvals: []BVal{}, Cbs: []CbRec{}, Caps: []TabCap{},
				Alive2: []ecs.Entity{}, Ret2: []ecs.Entity{}, Alive3: []ecs.Entity{}, Ret3: []ecs.Entity{}, Codec: [][3]ecs.Entity{}, BinOK: []int{},
				Res: Visit{V: map[string]int64{}, T: map[string]ecs.Entity{}}, Obs: GenObs{Obs: []string{}, With: []string{}, Without: []string{}}}
			lo.St = x.project()
			lo.Om = append([]ecs.Entity{}, x.ords...)
			x.emit(lo)
			done = append(done, op)
		}
		sh = append(sh, s)
	}
	if len(sh) == 0 {
		return done
	}
	// per-query targets to use
	rels := x.relNames()
	// 3. the goroutines
	var wg sync.WaitGroup
	var mu sync.Mutex
	results := []LogProbe{}
	start := make(chan struct{})
	for g := 0; g < goroutines; g++ {
		wg.Add(1)
		plan := make([][3]int, rounds) // which shared filter, which mode, which target ordinal
		for r := range plan {
			plan[r] = [3]int{x.rng.Intn(len(sh)), x.rng.Intn(4), x.pickTarget(vs)}
		}
		go func(g int, plan [][3]int) {
			defer wg.Done()
			<-start
			for _, p := range plan {
				s := sh[p[0]]
				flt := s.flt
				qt := map[string]ecs.Entity{}
				flt.Qt = FlexMap[int]{}
				for _, c := range flt.With {
					if _, fixed := flt.Ft[c]; isRelName(c) && !fixed && len(rels) > 0 && p[1] != 3 {
						flt.Qt[c] = p[2]
						qt[c] = x.ent(p[2])
					}
				}
				lp := LogProbe{K: "probe", Flt: x.logFlt(flt), F: s.f, Api: "conc", Visited: []Visit{}, At: []ecs.Entity{},
					TwinVisited: []ecs.Entity{}, TwinAt: []ecs.Entity{}}
				func() {
					defer func() {
						if r := recover(); r != nil {
							lp.Panic = true
						}
					}()
					var relsArg []ecs.Relation
					if x.Cfg.Path == "unsafe" && s.f == 0 {
						// the ID-based query
						uf := ecs.NewUnsafeFilter(x.w, x.idsOf(flt.With)...)
						if flt.Excl {
							uf = uf.Exclusive()
						} else if len(flt.Without) > 0 {
							uf = uf.Without(x.idsOf(flt.Without)...)
						}
						all := map[string]ecs.Entity{}
						for k, v := range x.tgMap(flt.Ft) {
							all[k] = v
						}
						for k, v := range qt {
							all[k] = v
						}
						q := uf.Query(x.unsafeRels(all)...)
						lp.Count = q.Count()
						if p[1] == 1 {
							q.Close()
							lp.Count = -1
							return
						}
						for q.Next() {
							lp.Visited = append(lp.Visited, Visit{E: q.Entity(), V: map[string]int64{}, T: map[string]ecs.Entity{}, PtrEq: true})
						}
						return
					}
					if s.rf.f0 != nil {
						relsArg = x.unsafeRels(qt)
						q := s.rf.f0.Query(relsArg...)
						lp.Count = q.Count()
						if p[1] == 1 {
							q.Close() // closed without iterating
							lp.Count = -1
							return
						}
						for q.Next() {
							lp.Visited = append(lp.Visited, Visit{E: q.Entity(), V: map[string]int64{}, T: map[string]ecs.Entity{}, PtrEq: true})
						}
						return
					}
					q := s.rf.tf.Query(x.typedRels(s.rf.ids, qt)...)
					lp.Count = q.Count()
					if p[1] == 1 {
						q.Close()
						lp.Count = -1
						return
					}
					if p[1] == 2 {
						for i := 0; i < lp.Count; i++ {
							lp.At = append(lp.At, q.EntityAt(i))
						}
					}
					for q.Next() {
						v := Visit{E: q.Entity(), V: map[string]int64{}, T: map[string]ecs.Entity{}, PtrEq: true}
						ps := q.Get()
						for i, c := range s.rf.ids {
							v.V[c] = *ps[i]
							if x.rel[c] {
								v.T[c] = q.GetRelation(i)
							}
						}
						lp.Visited = append(lp.Visited, v)
					}
				}()
				mu.Lock()
				results = append(results, lp)
				mu.Unlock()
			}
		}(g, plan)
	}
	close(start)
	// the goroutines finish within a fraction of a second; if they have not after a minute they are blocked for good
	// (e.g. on the lock's mutex after a panic that left it held): the queries never finish - reported like a world
	// that stays locked
	finished := make(chan struct{})
	go func() { wg.Wait(); close(finished) }()
	stuck := false
	select {
	case <-finished:
	case <-time.After(60 * time.Second):
		stuck = true
	}
	mu.Lock()
	results = append([]LogProbe{}, results...)
	mu.Unlock()
	sort.SliceStable(results, func(i, j int) bool { return results[i].F < results[j].F })
	for _, lp := range results {
		x.emit(lp)
	}
	end := LogProbe{K: "probe", Api: "conc-end", Visited: []Visit{}, At: []ecs.Entity{}, TwinVisited: []ecs.Entity{}, TwinAt: []ecs.Entity{},
		Flt: LogFlt{With: []string{}, Without: []string{}, Ft: map[string]ecs.Entity{}, Qt: map[string]ecs.Entity{}}}
	if stuck {
		end.Count = 2
		end.Msg = "goroutines creating / iterating / closing queries did not finish within 60 s"
	} else if x.w.IsLocked() {
		end.Count = 1
	}
	x.emit(end)
	return done
}
