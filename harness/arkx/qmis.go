package arkx

import (
	"fmt"
	"strings"

	"github.com/mlange-42/ark/ecs"
)

// LogQMis is a "qmis" event: a misuse of a query or mapper accessor, executed identically in every build
// configuration (C20: builds panic on exactly the same calls).  A call is the call together with the
// dereference a user performs on what it returns.
type LogQMis struct {
	K     string `json:"k"`
	What  string `json:"what"`
	Api   string `json:"api"`
	Panic bool   `json:"panic"`
	Val   int64  `json:"val"`
}

func (x *Exec) qmis(what, api string, f func() int64) {
	r := LogQMis{K: "qmis", What: what, Api: api}
	func() {
		defer func() {
			if e := recover(); e != nil {
				r.Panic = true
				_ = fmt.Sprint(e)
			}
		}()
		r.Val = f()
	}()
	x.emit(r)
}

func b2i(b bool) int64 {
	if b {
		return 1
	}
	return 0
}

// qmisBattery runs after a history, on an unlocked world.  Queries it leaves open are closed again.
func (x *Exec) qmisBattery() {
	if !x.Cfg.QMis || x.w.IsLocked() {
		return
	}
	comps := x.Cfg.Comps
	if len(comps) == 0 {
		return
	}
	c := comps[0]
	w := x.w
	// typed QueryN (N = 1..8: the first instantiated tuple of each arity within the model components; N = 1 over
	// the first component), and the ID-based query
	type qm struct {
		api string
		mk  func() TypedQuery
	}
	qms := []qm{{"typed", func() TypedQuery { return filterCtors[c](w).Query() }}}
	for n := 2; n <= 8; n++ {
		for _, t := range x.tupleSets() {
			if len(t) != n {
				continue
			}
			if ct := x.canonOrNil(t); ct != nil {
				ctor := filterCtors[strings.Join(ct, ",")]
				qms = append(qms, qm{fmt.Sprintf("typed%d", n), func() TypedQuery { return ctor(w).Query() }})
				break
			}
		}
	}
	for _, m := range qms {
		mk, api := m.mk, m.api
		x.qmis("get-before-next", api, func() int64 { q := mk(); defer q.Close(); return *q.Get()[0] })
		x.qmis("entity-before-next", api, func() int64 { q := mk(); defer q.Close(); return int64(q.Entity().ID()) })
		x.qmis("get-after-end", api, func() int64 {
			q := mk()
			for q.Next() {
			}
			return *q.Get()[0]
		})
		x.qmis("next-after-end", api, func() int64 {
			q := mk()
			for q.Next() {
			}
			return b2i(q.Next())
		})
		x.qmis("next-after-close", api, func() int64 {
			q := mk()
			q.Next()
			q.Close()
			return b2i(q.Next())
		})
		x.qmis("next-after-immediate-close", api, func() int64 {
			q := mk()
			q.Close()
			return b2i(q.Next())
		})
		x.qmis("get-after-close", api, func() int64 {
			q := mk()
			ok := q.Next()
			q.Close()
			if !ok {
				return -1
			}
			return *q.Get()[0]
		})
		x.qmis("entity-after-close", api, func() int64 {
			q := mk()
			ok := q.Next()
			q.Close()
			if !ok {
				return -1
			}
			return int64(q.Entity().ID())
		})
		x.qmis("close-twice", api, func() int64 { q := mk(); q.Close(); q.Close(); return b2i(w.IsLocked()) })
		x.qmis("close-after-end", api, func() int64 {
			q := mk()
			for q.Next() {
			}
			q.Close()
			return b2i(w.IsLocked())
		})
	}
	x.qmis("next-after-close", "query0", func() int64 {
		q := ecs.NewFilter0(w).Query()
		q.Next()
		q.Close()
		return b2i(q.Next())
	})
	x.qmis("next-after-end", "query0", func() int64 {
		q := ecs.NewFilter0(w).Query()
		for q.Next() {
		}
		return b2i(q.Next())
	})
	uq := func() ecs.UnsafeQuery { return ecs.NewUnsafeFilter(w, x.ids[c]).Query() }
	x.qmis("get-before-next", "unsafe", func() int64 { q := uq(); defer q.Close(); return *x.payload(c, q.Get(x.ids[c])) })
	x.qmis("next-after-close", "unsafe", func() int64 {
		q := uq()
		q.Next()
		q.Close()
		return b2i(q.Next())
	})
	x.qmis("next-after-end", "unsafe", func() int64 {
		q := uq()
		for q.Next() {
		}
		return b2i(q.Next())
	})
	// mapper access to a component the entity lacks
	var lacking, partial ecs.Entity
	var second string
	for _, h := range x.ords {
		if !w.Alive(h) {
			continue
		}
		ids := w.Unsafe().IDs(h)
		has := map[string]bool{}
		for i := 0; i < ids.Len(); i++ {
			has[x.names[ids.Get(i)]] = true
		}
		if !has[c] && lacking.IsZero() {
			lacking = h
		}
		if has[c] && partial.IsZero() {
			for _, d := range comps[1:] {
				if !has[d] && !isRelName(d) && !isRelName(c) {
					partial, second = h, d
				}
			}
		}
	}
	if !lacking.IsZero() {
		x.qmis("map-get-missing", "typed", func() int64 { return *x.mapFor([]string{c}).Get(lacking)[0] })
		x.qmis("map-set-missing", "typed", func() int64 { x.mapFor([]string{c}).Set(lacking, []int64{5}); return 0 })
		x.qmis("unsafe-get-missing", "unsafe", func() int64 { return *x.payload(c, w.Unsafe().Get(lacking, x.ids[c])) })
		x.qmis("getrelation-missing", "typed", func() int64 { return int64(x.mapFor([]string{c}).GetRelation(lacking, 0).ID()) })
	}
	// Set through MapN (N = 2..4) on an entity that has the first components but lacks the last one
	for _, h := range x.ords {
		if !w.Alive(h) {
			continue
		}
		ids := w.Unsafe().IDs(h)
		has := []string{}
		hasM := map[string]bool{}
		for i := 0; i < ids.Len(); i++ {
			n := x.names[ids.Get(i)]
			if !isRelName(n) {
				has = append(has, n)
			}
			hasM[n] = true
		}
		missing := ""
		for _, d := range comps {
			if !hasM[d] && !isRelName(d) {
				missing = d
			}
		}
		if missing == "" || len(has) == 0 {
			continue
		}
		for n := 1; n <= 3 && n <= len(has); n++ {
			tuple := append(append([]string{}, has[:n]...), missing)
			if _, ok := mapCtors[strings.Join(tuple, ",")]; !ok {
				continue
			}
			before := make([]int64, n)
			for i := 0; i < n; i++ {
				before[i] = *x.mapFor([]string{has[i]}).Get(h)[0]
			}
			vals := make([]int64, n+1)
			for i := range vals {
				vals[i] = 424200 + int64(i)
			}
			hh := h
			x.qmis(fmt.Sprintf("map%d-set-last-missing", n+1), "typed", func() int64 { x.mapFor(tuple).Set(hh, vals); return 0 })
			x.qmis(fmt.Sprintf("map%d-set-last-missing-effect", n+1), "typed", func() int64 {
				var changed int64
				for i := 0; i < n; i++ {
					p := x.mapFor([]string{has[i]}).Get(hh)[0]
					if *p != before[i] {
						changed++
					}
					*p = before[i]
				}
				return changed
			})
		}
		break
	}
	if !partial.IsZero() {
		// Set of two components, the second of which the entity lacks: what is left behind after recovering
		before := *x.mapFor([]string{c}).Get(partial)[0]
		x.qmis("map2-set-second-missing", "typed", func() int64 {
			defer func() {
				// restore, so that the world stays comparable
			}()
			x.mapFor([]string{c, second}).Set(partial, []int64{before + 1, 9})
			return 0
		})
		x.qmis("map2-set-second-missing-effect", "typed", func() int64 {
			v := *x.mapFor([]string{c}).Get(partial)[0]
			*x.mapFor([]string{c}).Get(partial)[0] = before
			return v - before
		})
	}
}
