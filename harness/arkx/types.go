// Package arkx is the conformance harness that binds the TLA+ specification in /verif/spec
// to the real github.com/mlange-42/ark/ecs package: it executes operation sequences generated
// by TLC (or by seeded drivers) on a real ecs.World through a chosen API path and writes an
// ndjson log that the TLA+ monitor (ArkTrace.tla) validates.
package arkx

import (
	"fmt"
	"reflect"
	"runtime"
	"sync"

	"github.com/mlange-42/ark/ecs"
)

// compT gives uniform access to the int64 payload of every harness component type.
type compT interface{ P() *int64 }

// PT constrains a pointer type to a harness component.
type PT[T any] interface {
	*T
	compT
}

func nilOr[T any, PT_ PT[T]](p *T) *int64 {
	if p == nil {
		return nil
	}
	return PT_(p).P()
}

// Model components.  Layouts differ on purpose (payload at different offsets, different sizes),
// so that a column mix-up changes the value that is read back.
type CA struct {
	V int64
	X int32
}
type CB struct{ V int64 }
type CC struct {
	X int16
	V int64
	Y [3]int32
}
type CR struct {
	ecs.RelationMarker
	V int64
}
type CS struct {
	ecs.RelationMarker
	X int32
	V int64
}

// Pointer-bearing components (C11): the payload V comes first, so that a pointer to it is a pointer to the
// component; the other fields mirror V in heap objects of every pointer-like kind.
type heapObj struct {
	val    int64
	serial int64
}

type CP struct {
	V int64
	H *heapObj
	S []int64
	M map[string]int64
	N string
}

type CQ struct {
	ecs.RelationMarker
	V int64
	H *heapObj
	S []int64
	N string
}

func (c *CP) P() *int64 { return &c.V }
func (c *CQ) P() *int64 { return &c.V }

// richT is implemented by pointer-bearing components.
type richT interface {
	compT
	Sync()         // rebuild the heap mirrors for the current payload (fresh objects)
	Decode() int64 // the payload if all mirrors agree with it, a negative marker otherwise
	Serial() int64 // serial number of the referenced heap object (0: none)
}

const (
	markCorrupt = -777 // mirrors disagree with the payload: pointee data changed or lost
	markDirty   = -778 // zero payload but pointers left behind
)

func (c *CP) Sync() {
	c.H = newHeapObj(c.V)
	c.S = []int64{c.V, c.V + 1}
	c.M = map[string]int64{"v": c.V}
	c.N = fmt.Sprint(c.V)
}
func (c *CP) Decode() int64 {
	if c.V == 0 && c.H == nil && c.S == nil && c.M == nil && c.N == "" {
		return 0
	}
	if c.H == nil || c.S == nil || c.M == nil {
		if c.V == 0 {
			return markDirty
		}
		return markCorrupt
	}
	if c.H.val != c.V || len(c.S) != 2 || c.S[0] != c.V || c.S[1] != c.V+1 || c.M["v"] != c.V || c.N != fmt.Sprint(c.V) {
		if c.V == 0 {
			return markDirty
		}
		return markCorrupt
	}
	return c.V
}
func (c *CP) Serial() int64 {
	if c.H == nil {
		return 0
	}
	return c.H.serial
}
func (c *CQ) Sync() {
	c.H = newHeapObj(c.V)
	c.S = []int64{c.V, c.V + 1}
	c.N = fmt.Sprint(c.V)
}
func (c *CQ) Decode() int64 {
	if c.V == 0 && c.H == nil && c.S == nil && c.N == "" {
		return 0
	}
	if c.H == nil || c.S == nil || c.H.val != c.V || len(c.S) != 2 || c.S[0] != c.V || c.S[1] != c.V+1 || c.N != fmt.Sprint(c.V) {
		if c.V == 0 {
			return markDirty
		}
		return markCorrupt
	}
	return c.V
}
func (c *CQ) Serial() int64 {
	if c.H == nil {
		return 0
	}
	return c.H.serial
}

// tracker of heap objects referenced by pointer-bearing components (finalizers observe collection)
var heapMu sync.Mutex
var heapSerial int64
var heapAlloc = map[int64]bool{}
var heapFinal = map[int64]bool{}

func newHeapObj(v int64) *heapObj {
	heapMu.Lock()
	heapSerial++
	h := &heapObj{val: v, serial: heapSerial}
	heapAlloc[h.serial] = true
	heapMu.Unlock()
	runtime.SetFinalizer(h, func(o *heapObj) {
		heapMu.Lock()
		heapFinal[o.serial] = true
		heapMu.Unlock()
	})
	return h
}

func resetHeapTracker() {
	heapMu.Lock()
	heapAlloc = map[int64]bool{}
	heapFinal = map[int64]bool{}
	heapMu.Unlock()
}

func syncRich(c compT) {
	if r, ok := c.(richT); ok {
		r.Sync()
	}
}

func (c *CA) P() *int64 { return &c.V }
func (c *CB) P() *int64 { return &c.V }
func (c *CC) P() *int64 { return &c.V }
func (c *CR) P() *int64 { return &c.V }
func (c *CS) P() *int64 { return &c.V }

// Filler components for high arities (C14) and ID layouts (C18).
// Filler components of the high arities: sizes and payload offsets differ between neighbours in the instantiated
// tuples (24, 32, 8, 32, 24, 16, 32, 40, 48, 16, 56, 48 bytes), so that an item size or a column taken from the
// neighbouring type parameter addresses the wrong bytes (seed C20-query7-get-itemsize-nodebug).
type CF1 struct {
	V int64
	X int8
	Y int64
}
type CF2 struct {
	X int32
	V int64
	Y [2]int64
}
type CF3 struct{ V int64 }
type CF4 struct {
	X [3]int64
	V int64
}
type CF5 struct {
	V    int64
	Y, Z int64
}
type CF6 struct {
	X int16
	V int64
}
type CF7 struct {
	V int64
	Y [5]int32
}
type CF8 struct {
	X [2]int64
	V int64
	Y [2]int64
}
type CF9 struct {
	V int64
	Y [5]int64
}
type CF10 struct {
	X int64
	V int64
}
type CF11 struct {
	V int64
	Y [6]int64
}
type CF12 struct {
	X [5]int64
	V int64
}

func (c *CF1) P() *int64  { return &c.V }
func (c *CF2) P() *int64  { return &c.V }
func (c *CF3) P() *int64  { return &c.V }
func (c *CF4) P() *int64  { return &c.V }
func (c *CF5) P() *int64  { return &c.V }
func (c *CF6) P() *int64  { return &c.V }
func (c *CF7) P() *int64  { return &c.V }
func (c *CF8) P() *int64  { return &c.V }
func (c *CF9) P() *int64  { return &c.V }
func (c *CF10) P() *int64 { return &c.V }
func (c *CF11) P() *int64 { return &c.V }
func (c *CF12) P() *int64 { return &c.V }

// compInfo describes a component name of the model.
type compInfo struct {
	name  string
	tp    reflect.Type
	comp  ecs.Comp
	isRel bool
	// payload access from an unsafe pointer to the component
	payload func(p any) *int64
}

var compTypes = map[string]reflect.Type{
	"A": reflect.TypeFor[CA](), "B": reflect.TypeFor[CB](), "C": reflect.TypeFor[CC](),
	"R": reflect.TypeFor[CR](), "S": reflect.TypeFor[CS](), "P": reflect.TypeFor[CP](), "Q": reflect.TypeFor[CQ](),
	"F1": reflect.TypeFor[CF1](), "F2": reflect.TypeFor[CF2](), "F3": reflect.TypeFor[CF3](),
	"F4": reflect.TypeFor[CF4](), "F5": reflect.TypeFor[CF5](), "F6": reflect.TypeFor[CF6](),
	"F7": reflect.TypeFor[CF7](), "F8": reflect.TypeFor[CF8](), "F9": reflect.TypeFor[CF9](),
	"F10": reflect.TypeFor[CF10](), "F11": reflect.TypeFor[CF11](), "F12": reflect.TypeFor[CF12](),
}

var compComps = map[string]ecs.Comp{
	"A": ecs.C[CA](), "B": ecs.C[CB](), "C": ecs.C[CC](), "R": ecs.C[CR](), "S": ecs.C[CS](), "P": ecs.C[CP](), "Q": ecs.C[CQ](),
	"F1": ecs.C[CF1](), "F2": ecs.C[CF2](), "F3": ecs.C[CF3](), "F4": ecs.C[CF4](), "F5": ecs.C[CF5](),
	"F6": ecs.C[CF6](), "F7": ecs.C[CF7](), "F8": ecs.C[CF8](), "F9": ecs.C[CF9](), "F10": ecs.C[CF10](),
	"F11": ecs.C[CF11](), "F12": ecs.C[CF12](),
}

// ---------------------------------------------------------------------------------------
// Uniform interfaces over every arity of the generic API (implemented in typed_gen.go).

type TypedMap interface {
	Arity() int
	NewEntity(vals []int64, rels []ecs.Relation) ecs.Entity
	NewEntityFn(fn func(ps []*int64), rels []ecs.Relation) ecs.Entity
	NewBatch(cnt int, vals []int64, rels []ecs.Relation)
	NewBatchFn(cnt int, fn func(e ecs.Entity, ps []*int64), rels []ecs.Relation)
	Get(e ecs.Entity) []*int64
	HasAll(e ecs.Entity) bool
	Add(e ecs.Entity, vals []int64, rels []ecs.Relation)
	AddFn(e ecs.Entity, fn func(ps []*int64), rels []ecs.Relation)
	Set(e ecs.Entity, vals []int64)
	AddBatch(b ecs.Batch, vals []int64, rels []ecs.Relation)
	AddBatchFn(b ecs.Batch, fn func(e ecs.Entity, ps []*int64), rels []ecs.Relation)
	Remove(e ecs.Entity)
	RemoveBatch(b ecs.Batch, fn func(e ecs.Entity))
	GetRelation(e ecs.Entity, idx int) ecs.Entity
	SetRelations(e ecs.Entity, rels []ecs.Relation)
	SetRelationsBatch(b ecs.Batch, fn func(e ecs.Entity), rels []ecs.Relation)
}

type TypedExchange interface {
	Removes(cs ...ecs.Comp)
	Add(e ecs.Entity, vals []int64, rels []ecs.Relation)
	AddFn(e ecs.Entity, fn func(ps []*int64), rels []ecs.Relation)
	Remove(e ecs.Entity)
	Exchange(e ecs.Entity, vals []int64, rels []ecs.Relation)
	ExchangeFn(e ecs.Entity, fn func(ps []*int64), rels []ecs.Relation)
	AddBatch(b ecs.Batch, vals []int64, rels []ecs.Relation)
	AddBatchFn(b ecs.Batch, fn func(e ecs.Entity, ps []*int64), rels []ecs.Relation)
	RemoveBatch(b ecs.Batch, fn func(e ecs.Entity))
	ExchangeBatch(b ecs.Batch, vals []int64, rels []ecs.Relation)
	ExchangeBatchFn(b ecs.Batch, fn func(e ecs.Entity, ps []*int64), rels []ecs.Relation)
}

type TypedFilter interface {
	Arity() int
	With(cs ...ecs.Comp)
	Without(cs ...ecs.Comp)
	Exclusive()
	Relations(rels ...ecs.Relation)
	Register()
	Unregister()
	Batch(rels ...ecs.Relation) ecs.Batch
	Query(rels ...ecs.Relation) TypedQuery
}

type TypedQuery interface {
	Next() bool
	Entity() ecs.Entity
	Get() []*int64
	GetRelation(i int) ecs.Entity
	Count() int
	EntityAt(i int) ecs.Entity
	Close()
}

// TypedObserver is ObserverN behind a uniform interface.
type TypedObserver interface {
	Register(w *ecs.World)
	Unregister(w *ecs.World)
}

var obsCtors = map[string]func(evt ecs.EventType, extra, with, without []ecs.Comp, excl bool, cb func(e ecs.Entity, ps []*int64)) TypedObserver{}
var mapCtors = map[string]func(w *ecs.World) TypedMap{}
var exCtors = map[string]func(w *ecs.World) TypedExchange{}
var filterCtors = map[string]func(w *ecs.World) TypedFilter{}
