package arkx

import (
	"fmt"
	"sort"
	"strings"

	"github.com/mlange-42/ark/ecs"
)

// Drive runs one seeded random history of nops operations against a fresh real world and logs it
// for the monitor (DESIGN.md 4.2).  Operations are chosen to be valid in the current state of the
// real world as read through the public API; the monitor decides whether each outcome is allowed.
func (x *Exec) Drive(nops int, note string) []GenOp {
	done := []GenOp{}
	x.seq++
	x.newWorld()
	x.gqueue = nil
	x.emit(LogReset{K: "reset", Seq: x.seq, Rel: x.relNames(), Cfg: x.Cfg, Note: note})
	maxEnt := x.Cfg.MaxEnt
	if maxEnt <= 0 {
		maxEnt = 24
	}
	for i := 1; i <= nops; i++ {
		op, ok, broken := x.safeRandomOp(maxEnt)
		if broken != "" {
			x.emit(LogBroken{K: "broken", Where: "reading the world through the public API", Msg: broken})
			return done
		}
		if !ok {
			continue
		}
		done = append(done, op)
		// a panic the driver asked for: a structural attempt on a locked world, an invalid resource operation
		expected := false
		switch op.Op {
		case "Set", "QOpen", "QNext", "QClose", "RegF", "UnregF", "RegO", "UnregO", "Emit", "Read":
		case "ResAdd":
			expected = x.res[op.Ev].has(x.w)
		case "ResRemove", "ResSet":
			expected = !x.res[op.Ev].has(x.w)
		default:
			expected = x.w.IsLocked()
		}
		lo := x.run(op, i)
		x.emit(lo)
		if lo.Panic && !expected {
			// the monitor will flag it; stop this history
			break
		}
		if msg := x.guard(func() {
			if x.Cfg.EveryOp || x.rng.Intn(8) == 0 {
				x.battery()
			}
			if x.Cfg.Stats && x.rng.Intn(25) == 0 {
				x.statsEvent()
			}
			if x.Cfg.Mem && x.rng.Intn(40) == 0 {
				x.memEvent()
			}
			if x.Cfg.Misuse != 0 && len(x.queries) == 0 && x.rng.Intn(30) == 0 {
				// rejected calls in the middle of a history: whatever they leave behind in hidden state shows in the
				// valid operations that follow (C10: "... exactly as before the call")
				x.misuseBattery(i)
			}
		}); msg != "" {
			x.emit(LogBroken{K: "broken", Where: "batteries", Msg: msg})
			return done
		}
	}
	if msg := x.guard(func() {
		x.battery()
		if x.Cfg.Stats {
			x.statsEvent()
		}
		x.qmisBattery()
		if x.Cfg.Mem {
			x.memEvent()
		}
		x.misuseBattery(nops)
	}); msg != "" {
		x.emit(LogBroken{K: "broken", Where: "batteries after the history", Msg: msg})
		return done
	}
	// close what is still open; the world must be unlocked afterwards (checked by the monitor)
	qids := []int{}
	for id := range x.queries {
		qids = append(qids, id)
	}
	sort.Ints(qids)
	for k, id := range qids {
		o := GenOp{Op: "QClose", Q: id, Add: []string{}, Rem: []string{}, Vals: FlexMap[int64]{}, Tg: FlexMap[int]{}, N: 1, Mode: "val",
			Flt: GenFlt{With: []string{}, Without: []string{}, Ft: FlexMap[int]{}, Qt: FlexMap[int]{}}}
		done = append(done, o)
		x.emit(x.run(o, nops+100+k))
	}
	return done
}

func (x *Exec) safeRandomOp(maxEnt int) (op GenOp, ok bool, broken string) {
	defer func() {
		if r := recover(); r != nil {
			if hb, isHB := r.(harnessBug); isHB {
				panic(hb.msg)
			}
			broken = fmt.Sprint(r)
			if len(broken) > 160 {
				broken = broken[:160]
			}
		}
	}()
	op, ok = x.randomOp(maxEnt)
	return
}

type entView struct {
	ord  int
	has  map[string]bool
	list []string
}

func (x *Exec) view() []entView {
	vs := []entView{}
	for i, h := range x.ords {
		if !x.w.Alive(h) {
			continue
		}
		v := entView{ord: i + 1, has: map[string]bool{}}
		ids := x.w.Unsafe().IDs(h)
		for k := 0; k < ids.Len(); k++ {
			n := x.names[ids.Get(k)]
			v.has[n] = true
			v.list = append(v.list, n)
		}
		sort.Strings(v.list)
		vs = append(vs, v)
	}
	return vs
}

func (x *Exec) pickTarget(vs []entView) int {
	if len(vs) == 0 || x.rng.Intn(4) == 0 {
		return 0
	}
	return vs[x.rng.Intn(len(vs))].ord
}

// tupleSets lists the instantiated component tuples (as sorted-by-registration sets) within the model components.
func (x *Exec) tupleSets() [][]string {
	if x.tsets != nil {
		return x.tsets
	}
	in := map[string]int{}
	for i, c := range x.Cfg.Comps {
		in[c] = i + 1
	}
	seen := map[string]bool{}
	for _, key := range sortedKeys(mapCtors) {
		t := strings.Split(key, ",")
		ok := true
		for _, c := range t {
			if in[c] == 0 {
				ok = false
			}
		}
		if !ok {
			continue
		}
		sort.Slice(t, func(i, j int) bool { return in[t[i]] < in[t[j]] })
		k := strings.Join(t, ",")
		if !seen[k] {
			seen[k] = true
			x.tsets = append(x.tsets, t)
		}
	}
	return x.tsets
}

func (x *Exec) subset(from []string, min int) []string {
	if x.Cfg.Arity {
		// any instantiated tuple that lies within `from`, of any arity (larger ones preferred half of the time)
		ok := map[string]bool{}
		for _, c := range from {
			ok[c] = true
		}
		cands := [][]string{}
		for _, t := range x.tupleSets() {
			fits := true
			for _, c := range t {
				if !ok[c] {
					fits = false
				}
			}
			if fits {
				cands = append(cands, t)
			}
		}
		if len(cands) == 0 {
			return []string{}
		}
		if x.rng.Intn(2) == 0 {
			best := cands[0]
			for _, t := range cands {
				if len(t) > len(best) || (len(t) == len(best) && x.rng.Intn(2) == 0) {
					best = t
				}
			}
			return append([]string{}, best...)
		}
		return append([]string{}, cands[x.rng.Intn(len(cands))]...)
	}
	r := []string{}
	for _, c := range from {
		if x.rng.Intn(2) == 0 {
			r = append(r, c)
		}
	}
	if len(r) < min && len(from) > 0 {
		r = []string{from[x.rng.Intn(len(from))]}
	}
	if len(r) > 3 {
		r = r[:3]
	}
	return r
}

func (x *Exec) randomOp(maxEnt int) (GenOp, bool) {
	comps := x.Cfg.Comps
	if len(x.gqueue) > 0 {
		// the rest of a scripted scenario of the coverage-guided driver (grid.go)
		o := x.gqueue[0]
		x.gqueue = x.gqueue[1:]
		return o, true
	}
	vs := x.view()
	mk := func(op string) GenOp {
		return GenOp{Op: op, Add: []string{}, Rem: []string{}, Vals: FlexMap[int64]{}, Tg: FlexMap[int]{}, N: 1, Mode: "val",
			Flt: GenFlt{With: []string{}, Without: []string{}, Ft: FlexMap[int]{}, Qt: FlexMap[int]{}}}
	}
	fill := func(o *GenOp, add []string, ord int) {
		o.Add = add
		for k, c := range add {
			o.Vals[c] = int64(100*len(x.issued) + 10*ord + k + 1 + x.rng.Intn(3)*1000)
			if isRelName(c) {
				o.Tg[c] = x.pickTarget(vs)
			}
		}
	}
	modes := []string{"val", "val", "fn", "noinit"}
	// the zero-th decision: keep the population bounded
	kind := x.rng.Intn(100)
	if len(vs) >= maxEnt {
		kind = 60 + x.rng.Intn(12)
	}
	if len(vs) == 0 {
		kind = 0
	}
	if x.Cfg.ResetP > 0 && len(x.queries) == 0 && x.rng.Intn(1000) < x.Cfg.ResetP {
		switch x.rng.Intn(3) {
		case 0:
			return mk("Reset"), true
		case 1:
			// the world continues as the one its dump is loaded into
			o := mk("Load")
			o.Mode = []string{"fresh", "reset"}[x.rng.Intn(2)]
			return o, true
		}
		o := mk("DumpLoad")
		o.N = 1 + x.rng.Intn(3)
		o.Mode = []string{"fresh", "reset", "nojson"}[x.rng.Intn(3)]
		return o, true
	}
	if x.Cfg.ResP > 0 && x.rng.Intn(1000) < x.Cfg.ResP {
		// resources: valid in the state read from the real world, occasionally invalid (Add of a resource that is
		// present, Remove of one that is absent must panic and change nothing); the world lock does not matter
		n := resNames[x.rng.Intn(len(resNames))]
		has := x.res[n].has(x.w)
		o := mk("ResAdd")
		switch r := x.rng.Intn(10); {
		case has && r < 4:
			o.Op = "ResSet"
		case has && r < 8, !has && r >= 9:
			o.Op = "ResRemove"
		}
		o.Ev = n
		if o.Op != "ResRemove" {
			o.Vals[n] = int64(1 + x.rng.Intn(9000))
		}
		return o, true
	}
	if x.Cfg.ObsP > 0 && x.rng.Intn(1000) < x.Cfg.ObsP {
		kind = 98
	}
	if len(x.queries) > 0 {
		// the world is locked by open queries: advance / close them, open more, write through Set,
		// emit events, (un)register filters - and occasionally attempt a structural change (must panic)
		qids := []int{}
		for id := range x.queries {
			qids = append(qids, id)
		}
		sort.Ints(qids)
		if x.Cfg.Grid >= 50 && len(vs) > 0 && x.rng.Intn(100) < 25 {
			// arity driver: a quarter of the steps on a locked world attempt the least-attempted structural target
			if o, ok := x.gridOpLocked(vs, mk, fill); ok {
				if n := len(x.gqueue); n > 0 {
					o = x.gqueue[n-1]
					x.gqueue = nil
				}
				return o, true
			}
		}
		r := x.rng.Intn(100)
		switch {
		case r < 55:
			o := mk("QNext")
			o.Q = qids[x.rng.Intn(len(qids))]
			return o, true
		case r < 68:
			o := mk("QClose")
			o.Q = qids[x.rng.Intn(len(qids))]
			return o, true
		case r < 78 && len(qids) < x.Cfg.Queries:
			return x.randomQOpen(vs, mk), true
		case r < 84 && len(vs) > 0:
			kind = 53 + x.rng.Intn(7) // Set
		case r < 90:
			kind = 91 + x.rng.Intn(3) // RegF / UnregF
		case r < 93 && x.Cfg.Observers > 0:
			kind = 98
		case r >= 98 && x.Cfg.RegLocked:
			// a never-seen component type is registered while the world is locked: must panic without effect
			return mk("RegType"), true
		default:
			// any structural operation: kind stays as drawn, excluding Shrink (undefined while locked)
			if kind >= 94 && kind < 99 {
				kind = x.rng.Intn(90)
			}
			if x.Cfg.Grid > 0 && len(vs) > 0 && len(x.gqueue) == 0 {
				// coverage-guided: the structural (method, tuple) pair least attempted on a locked world
				if o, ok := x.gridOpLocked(vs, mk, fill); ok {
					if n := len(x.gqueue); n > 0 {
						// a scripted scenario: its preparation cannot succeed on a locked world; attempt the target itself
						o = x.gqueue[n-1]
						x.gqueue = nil
					}
					return o, true
				}
			}
		}
	} else if x.Cfg.Queries > 0 && x.rng.Intn(12) == 0 {
		return x.randomQOpen(vs, mk), true
	}
	if x.Cfg.Grid > 0 && len(x.queries) == 0 && len(vs) > 0 && len(vs) < maxEnt && x.rng.Intn(100) < x.Cfg.Grid {
		// coverage-guided: the least-exercised (method, tuple) pair that is applicable now (grid.go)
		if o, ok := x.gridOp(vs, mk, fill); ok {
			return o, true
		}
	}
	switch {
	case kind < 16: // New
		o := mk("New")
		fill(&o, x.subset(comps, 0), len(x.ords)+1)
		o.Mode = modes[x.rng.Intn(len(modes))]
		if len(o.Add) == 0 {
			o.Mode = "val"
		}
		if o.Mode == "noinit" {
			for c := range o.Vals {
				o.Vals[c] = 0
			}
		}
		return o, true
	case kind < 22: // NewBatch
		o := mk("NewBatch")
		fill(&o, x.subset(comps, 0), 0)
		o.Vals = FlexMap[int64]{}
		o.N = 2 + x.rng.Intn(4)
		if x.Cfg.BatchN > 5 && x.rng.Intn(2) == 0 {
			o.N = 2 + x.rng.Intn(x.Cfg.BatchN) // large batches: tables beyond the 64-row reset threshold
		}
		o.Mode = "fn"
		if len(o.Add) > 0 && x.rng.Intn(4) == 0 {
			o.Mode = "noinit"
		}
		return o, true
	case kind < 25:
		o := mk("Copy")
		o.E = vs[x.rng.Intn(len(vs))].ord
		return o, true
	case kind < 38: // Add
		v := vs[x.rng.Intn(len(vs))]
		missing := []string{}
		for _, c := range comps {
			if !v.has[c] {
				missing = append(missing, c)
			}
		}
		if len(missing) == 0 {
			return GenOp{}, false
		}
		o := mk("Add")
		o.E = v.ord
		fill(&o, x.subset(missing, 1), v.ord)
		if x.rng.Intn(5) == 0 {
			o.Mode = "noinit"
			for c := range o.Vals {
				o.Vals[c] = 0
			}
		}
		return o, true
	case kind < 48: // Remove
		v := vs[x.rng.Intn(len(vs))]
		if len(v.list) == 0 {
			return GenOp{}, false
		}
		o := mk("Remove")
		o.E = v.ord
		o.Rem = x.subset(v.list, 1)
		return o, true
	case kind < 53: // Exchange
		v := vs[x.rng.Intn(len(vs))]
		missing := []string{}
		for _, c := range comps {
			if !v.has[c] {
				missing = append(missing, c)
			}
		}
		if len(v.list) == 0 || len(missing) == 0 {
			return GenOp{}, false
		}
		o := mk("Exchange")
		o.E = v.ord
		fill(&o, x.subset(missing, 1), v.ord)
		o.Rem = x.subset(v.list, 1)
		return o, true
	case kind < 60: // Set
		v := vs[x.rng.Intn(len(vs))]
		if len(v.list) == 0 {
			return GenOp{}, false
		}
		o := mk("Set")
		o.E = v.ord
		o.Add = x.subset(v.list, 1)
		for k, c := range o.Add {
			o.Vals[c] = int64(5000 + 10*v.ord + k + x.rng.Intn(50)*100)
		}
		return o, true
	case kind < 68: // Kill
		o := mk("Kill")
		o.E = vs[x.rng.Intn(len(vs))].ord
		return o, true
	case kind < 72: // KillBatch
		o := mk("KillBatch")
		o.Mode = "fn"
		o.Flt = x.randomFilter(vs, "")
		x.maybeRegistered(&o)
		if o.F == 0 {
			x.remember(o.Flt)
		}
		return o, true
	case kind < 80: // SetRel
		cands := []entView{}
		for _, v := range vs {
			for _, c := range v.list {
				if isRelName(c) {
					cands = append(cands, v)
					break
				}
			}
		}
		if len(cands) == 0 {
			return GenOp{}, false
		}
		v := cands[x.rng.Intn(len(cands))]
		o := mk("SetRel")
		o.E = v.ord
		for _, c := range v.list {
			if isRelName(c) && (len(o.Tg) == 0 || x.rng.Intn(2) == 0) {
				o.Tg[c] = x.pickTarget(vs)
			}
		}
		return o, true
	case kind < 84: // SetRelBatch
		rels := x.relNames()
		if len(rels) == 0 {
			return GenOp{}, false
		}
		r := rels[x.rng.Intn(len(rels))]
		o := mk("SetRelBatch")
		o.Mode = "fn"
		o.Flt = x.randomFilter(vs, r)
		o.Tg[r] = x.pickTarget(vs)
		x.maybeRegistered(&o)
		if o.F == 0 {
			x.remember(o.Flt)
		}
		return o, true
	case kind < 88: // AddBatch: filter excludes the added components
		add := []string{comps[x.rng.Intn(len(comps))]}
		if x.Cfg.Arity && x.rng.Intn(2) == 0 {
			add = x.subset(comps, 1) // an instantiated tuple of any arity
			if len(add) > 8 {
				add = add[:1]
			}
		}
		o := mk("AddBatch")
		o.Mode = []string{"fn", "val"}[x.rng.Intn(2)]
		o.Add = add
		inAdd := map[string]bool{}
		for _, c := range add {
			inAdd[c] = true
			o.Vals[c] = int64(8000 + x.rng.Intn(100))
			if isRelName(c) {
				o.Tg[c] = x.pickTarget(vs)
			}
		}
		o.Flt = x.randomFilter(vs, "")
		o.Flt.Excl = false
		with := []string{}
		for _, w := range o.Flt.With {
			if !inAdd[w] {
				with = append(with, w)
			}
		}
		o.Flt.With = with
		for c := range o.Flt.Ft {
			if inAdd[c] {
				delete(o.Flt.Ft, c)
			}
		}
		for c := range o.Flt.Qt {
			if inAdd[c] {
				delete(o.Flt.Qt, c)
			}
		}
		o.Flt.Without = add
		return o, true
	case kind < 89 && x.rng.Intn(2) == 0: // ExchangeBatch: filter requires the removed and excludes the added component
		if len(comps) < 2 {
			return GenOp{}, false
		}
		i := x.rng.Intn(len(comps))
		j := (i + 1 + x.rng.Intn(len(comps)-1)) % len(comps)
		o := mk("ExchangeBatch")
		o.Mode = []string{"fn", "val"}[x.rng.Intn(2)]
		o.Add = []string{comps[i]}
		o.Rem = []string{comps[j]}
		o.Vals[comps[i]] = int64(7000 + x.rng.Intn(100))
		if isRelName(comps[i]) {
			o.Tg[comps[i]] = x.pickTarget(vs)
		}
		o.Flt = x.randomFilter(vs, comps[j])
		o.Flt.Excl = false
		for _, w := range o.Flt.With {
			if w == comps[i] {
				return GenOp{}, false
			}
		}
		o.Flt.Without = []string{comps[i]}
		return o, true
	case kind < 91: // RemoveBatch: filter requires the removed component
		c := comps[x.rng.Intn(len(comps))]
		o := mk("RemoveBatch")
		o.Mode = []string{"fn", "val"}[x.rng.Intn(2)]
		o.Rem = []string{c}
		o.Flt = x.randomFilter(vs, c)
		x.maybeRegistered(&o)
		return o, true
	case kind < 94: // RegF / UnregF
		id := 1 + x.rng.Intn(4)
		if _, ok := x.filters[id]; ok {
			o := mk("UnregF")
			o.F = id
			return o, true
		}
		o := mk("RegF")
		o.F = id
		o.Flt = x.randomFilter(vs, "")
		o.Flt.Qt = FlexMap[int]{}
		if live := x.liveRecent(); len(live) > 0 && x.rng.Intn(2) == 0 {
			// register the filter object that recent queries / batches used unregistered (with per-call targets)
			r := live[x.rng.Intn(len(live))]
			o.Flt = GenFlt{With: r.With, Without: r.Without, Excl: r.Excl, Ft: r.Ft, Qt: FlexMap[int]{}}
		}
		return o, true
	case kind < 99 && x.Cfg.Observers > 0 && (kind == 98 || x.rng.Intn(2) == 0):
		// observers: register / unregister / emit a custom event
		ids := []int{}
		for id := range x.obs {
			ids = append(ids, id)
		}
		sort.Ints(ids)
		switch {
		case len(ids) < x.Cfg.Observers && x.rng.Intn(3) != 0:
			o := mk("RegO")
			o.O = 1
			for x.obs[o.O] != nil {
				o.O++
			}
			o.Obs = x.randomObserver()
			return o, true
		case len(ids) > 0 && x.rng.Intn(2) == 0:
			o := mk("UnregO")
			o.O = ids[x.rng.Intn(len(ids))]
			return o, true
		default:
			o := mk("Emit")
			o.Ev = []string{"Custom0", "Custom1"}[x.rng.Intn(2)]
			if len(vs) > 0 && x.rng.Intn(5) != 0 {
				v := vs[x.rng.Intn(len(vs))]
				o.E = v.ord
				o.Add = x.subset(v.list, 0)
			}
			return o, true
		}
	case kind < 99:
		o := mk("Shrink")
		o.Mode = []string{"all", "one", "loop"}[x.rng.Intn(3)]
		return o, true
	default:
		if x.rng.Intn(4) != 0 {
			return GenOp{}, false
		}
		return mk("Reset"), true
	}
}

// maybeRegistered lets a batch use a registered filter whose definition subsumes the wanted one.
func (x *Exec) sortedFilterIDs() []int {
	ids := []int{}
	for id := range x.filters {
		ids = append(ids, id)
	}
	sort.Ints(ids)
	return ids
}

func (x *Exec) maybeRegistered(o *GenOp) {
	for _, id := range x.sortedFilterIDs() {
		rf := x.filters[id]
		if sameStrings(rf.flt.With, o.Flt.With) && sameStrings(rf.flt.Without, o.Flt.Without) && rf.flt.Excl == o.Flt.Excl && len(o.Flt.Ft) == 0 {
			ok := true
			for c := range o.Flt.Qt {
				if _, fixed := rf.flt.Ft[c]; fixed {
					ok = false
				}
			}
			if ok {
				o.F = id
				o.Flt.Ft = rf.flt.Ft
				return
			}
		}
	}
}

func sameStrings(a, b []string) bool {
	if len(a) != len(b) {
		return false
	}
	for i := range a {
		if a[i] != b[i] {
			return false
		}
	}
	return true
}

// randomFilter builds a filter definition; `must` (if not empty) is required.
func (x *Exec) randomFilter(vs []entView, must string) GenFlt {
	comps := x.Cfg.Comps
	f := GenFlt{With: []string{}, Without: []string{}, Ft: FlexMap[int]{}, Qt: FlexMap[int]{}}
	in := map[string]bool{}
	if must != "" {
		in[must] = true
	}
	for _, c := range comps {
		if x.rng.Intn(4) == 0 {
			in[c] = true
		}
	}
	if x.Cfg.Arity && must == "" && x.rng.Intn(2) == 0 {
		// the required components are one of the instantiated tuples (arity <= 8: FilterN / QueryN)
		k := 1 + x.rng.Intn(8)
		cands := [][]string{}
		for _, t := range x.tupleSets() {
			if len(t) == k {
				cands = append(cands, t)
			}
		}
		if len(cands) > 0 {
			in = map[string]bool{}
			for _, c := range cands[x.rng.Intn(len(cands))] {
				in[c] = true
			}
		}
	}
	for _, c := range comps {
		if in[c] {
			f.With = append(f.With, c)
		}
	}
	switch x.rng.Intn(5) {
	case 0:
		f.Excl = true
	case 1:
		for _, c := range comps {
			if !in[c] && x.rng.Intn(2) == 0 {
				f.Without = append(f.Without, c)
			}
		}
	}
	for _, c := range f.With {
		if isRelName(c) {
			switch x.rng.Intn(4) {
			case 0:
				f.Ft[c] = x.pickTarget(vs)
			case 1:
				f.Qt[c] = x.pickTarget(vs)
			}
		}
	}
	return f
}

var _ = ecs.Entity{}

var eventNames = []string{"OnCreateEntity", "OnRemoveEntity", "OnAddComponents", "OnRemoveComponents", "OnSetComponents",
	"OnAddRelations", "OnRemoveRelations", "Custom0", "Custom1"}

// randomObserver draws an observer specification over the model components.
func (x *Exec) randomObserver() GenObs {
	comps := x.Cfg.Comps
	o := GenObs{Ev: eventNames[x.rng.Intn(len(eventNames))], Obs: []string{}, With: []string{}, Without: []string{}}
	if len(x.obsSpec) > 0 && x.rng.Intn(10) < 6 {
		// the aggregates of the observer manager are per event type: prefer a type that is already observed
		ids := []int{}
		for id := range x.obsSpec {
			ids = append(ids, id)
		}
		sort.Ints(ids)
		o.Ev = x.obsSpec[ids[x.rng.Intn(len(ids))]].Ev
	}
	if x.rng.Intn(4) == 0 {
		return o // an unfiltered observer
	}
	cand := comps
	if o.Ev == "OnAddRelations" || o.Ev == "OnRemoveRelations" {
		cand = x.relNames()
	}
	for _, c := range cand {
		if x.rng.Intn(3) == 0 && len(o.Obs) < 2 {
			o.Obs = append(o.Obs, c)
		}
	}
	if x.Cfg.Arity && len(cand) >= 4 && x.rng.Intn(2) == 0 {
		// an instantiated tuple of arity 1..4 (Observer1..4)
		k := 1 + x.rng.Intn(4)
		cands := [][]string{}
		for _, t := range x.tupleSets() {
			if len(t) == k {
				cands = append(cands, t)
			}
		}
		if len(cands) > 0 {
			o.Obs = append([]string{}, cands[x.rng.Intn(len(cands))]...)
		}
	}
	for _, c := range comps {
		switch x.rng.Intn(6) {
		case 0:
			o.With = append(o.With, c)
		case 1:
			o.Without = append(o.Without, c)
		}
	}
	if x.rng.Intn(6) == 0 {
		o.Excl = true
		o.Without = []string{}
	}
	return o
}

// liveRecent lists the recently used relation filters whose fixed targets are all alive.
func (x *Exec) liveRecent() []GenFlt {
	live := []GenFlt{}
	for _, r := range x.recent {
		ok := true
		for _, t := range r.Ft {
			if t != 0 && !x.w.Alive(x.ent(t)) {
				ok = false // its fixed target has died: using it again would name a removed entity
			}
		}
		if ok {
			live = append(live, r)
		}
	}
	return live
}

func (x *Exec) randomQOpen(vs []entView, mk func(string) GenOp) GenOp {
	o := mk("QOpen")
	o.Q = 1
	for x.queries[o.Q] != nil {
		o.Q++
	}
	o.Flt = x.randomFilter(vs, "")
	live := x.liveRecent()
	if len(live) > 0 && x.rng.Intn(2) == 0 {
		// the same filter object as a recent batch or query, with other per-query targets
		r := live[x.rng.Intn(len(live))]
		o.Flt = GenFlt{With: r.With, Without: r.Without, Excl: r.Excl, Ft: r.Ft, Qt: FlexMap[int]{}}
		for _, c := range r.With {
			if _, fixed := r.Ft[c]; isRelName(c) && !fixed && x.rng.Intn(4) != 0 {
				o.Flt.Qt[c] = x.pickTarget(vs)
			}
		}
		x.remember(o.Flt)
		return o
	}
	defer func() { x.remember(o.Flt) }()
	// sometimes through a registered filter
	for _, id := range x.sortedFilterIDs() {
		rf := x.filters[id]
		dead := false
		for _, t := range rf.flt.Ft {
			if t != 0 && !x.w.Alive(x.ent(t)) {
				dead = true
			}
		}
		if !dead && x.rng.Intn(2) == 0 {
			o.F = id
			o.Flt = rf.flt
			o.Flt.Qt = FlexMap[int]{}
			for _, c := range o.Flt.With {
				if _, fixed := o.Flt.Ft[c]; isRelName(c) && !fixed && x.rng.Intn(2) == 0 {
					o.Flt.Qt[c] = x.pickTarget(vs)
				}
			}
			break
		}
	}
	return o
}

// remember keeps the definitions of filters used recently (with relation components), so that later
// queries reuse the same long-lived filter object with different per-query targets.
func (x *Exec) remember(f GenFlt) {
	hasRel := false
	for _, c := range f.With {
		if isRelName(c) {
			hasRel = true
		}
	}
	if !hasRel {
		return
	}
	x.recent = append(x.recent, f)
	if len(x.recent) > 6 {
		x.recent = x.recent[1:]
	}
}

// guard runs harness code that calls into the library outside of an operation; a panic is reported as text.
func (x *Exec) guard(f func()) (msg string) {
	defer func() {
		if r := recover(); r != nil {
			if hb, isHB := r.(harnessBug); isHB {
				panic(hb.msg)
			}
			msg = fmt.Sprint(r)
			if len(msg) > 160 {
				msg = msg[:160]
			}
		}
	}()
	f()
	return ""
}
