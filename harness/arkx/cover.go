package arkx

import (
	"fmt"
	"sync"
	"sync/atomic"

	"github.com/mlange-42/ark/ecs"
)

// Method-level API coverage: every typed wrapper handed out by the executor is decorated so that each call is
// counted under "<Type><arity>.<Method>" (C14 requires every generated variant to be exercised).

// (queries are created from several goroutines in the concurrency runs)
var covMu sync.Mutex

// covOff > 0: calls are not counted - misuse calls and structural attempts on a locked world are rejected by the
// library's checks and do not exercise the variant (C14's coverage requirement counts calls that can take effect)
var covOff int32

func covHit(c map[string]int, k string) {
	if atomic.LoadInt32(&covOff) > 0 {
		return
	}
	covMu.Lock()
	c[k]++
	covMu.Unlock()
}

type covMap struct {
	TypedMap
	c map[string]int
	p string
}

func (m covMap) hit(s string) { covHit(m.c, m.p+"."+s) }
func (m covMap) NewEntity(vals []int64, rels []ecs.Relation) ecs.Entity {
	m.hit("NewEntity")
	return m.TypedMap.NewEntity(vals, rels)
}
func (m covMap) NewEntityFn(fn func(ps []*int64), rels []ecs.Relation) ecs.Entity {
	m.hit("NewEntityFn")
	return m.TypedMap.NewEntityFn(fn, rels)
}
func (m covMap) NewBatch(cnt int, vals []int64, rels []ecs.Relation) {
	m.hit("NewBatch")
	m.TypedMap.NewBatch(cnt, vals, rels)
}
func (m covMap) NewBatchFn(cnt int, fn func(e ecs.Entity, ps []*int64), rels []ecs.Relation) {
	m.hit("NewBatchFn")
	m.TypedMap.NewBatchFn(cnt, fn, rels)
}
func (m covMap) Get(e ecs.Entity) []*int64 { m.hit("Get"); return m.TypedMap.Get(e) }
func (m covMap) HasAll(e ecs.Entity) bool  { m.hit("HasAll"); return m.TypedMap.HasAll(e) }
func (m covMap) Add(e ecs.Entity, vals []int64, rels []ecs.Relation) {
	m.hit("Add")
	m.TypedMap.Add(e, vals, rels)
}
func (m covMap) AddFn(e ecs.Entity, fn func(ps []*int64), rels []ecs.Relation) {
	m.hit("AddFn")
	m.TypedMap.AddFn(e, fn, rels)
}
func (m covMap) Set(e ecs.Entity, vals []int64) { m.hit("Set"); m.TypedMap.Set(e, vals) }
func (m covMap) AddBatch(b ecs.Batch, vals []int64, rels []ecs.Relation) {
	m.hit("AddBatch")
	m.TypedMap.AddBatch(b, vals, rels)
}
func (m covMap) AddBatchFn(b ecs.Batch, fn func(e ecs.Entity, ps []*int64), rels []ecs.Relation) {
	m.hit("AddBatchFn")
	m.TypedMap.AddBatchFn(b, fn, rels)
}
func (m covMap) Remove(e ecs.Entity) { m.hit("Remove"); m.TypedMap.Remove(e) }
func (m covMap) RemoveBatch(b ecs.Batch, fn func(e ecs.Entity)) {
	m.hit("RemoveBatch")
	m.TypedMap.RemoveBatch(b, fn)
}
func (m covMap) GetRelation(e ecs.Entity, idx int) ecs.Entity {
	m.hit("GetRelation")
	return m.TypedMap.GetRelation(e, idx)
}
func (m covMap) SetRelations(e ecs.Entity, rels []ecs.Relation) {
	m.hit("SetRelations")
	m.TypedMap.SetRelations(e, rels)
}
func (m covMap) SetRelationsBatch(b ecs.Batch, fn func(e ecs.Entity), rels []ecs.Relation) {
	m.hit("SetRelationsBatch")
	m.TypedMap.SetRelationsBatch(b, fn, rels)
}

type covEx struct {
	TypedExchange
	c map[string]int
	p string
}

func (m covEx) hit(s string) { covHit(m.c, m.p+"."+s) }
func (m covEx) Add(e ecs.Entity, vals []int64, rels []ecs.Relation) {
	m.hit("Add")
	m.TypedExchange.Add(e, vals, rels)
}
func (m covEx) AddFn(e ecs.Entity, fn func(ps []*int64), rels []ecs.Relation) {
	m.hit("AddFn")
	m.TypedExchange.AddFn(e, fn, rels)
}
func (m covEx) Remove(e ecs.Entity) { m.hit("Remove"); m.TypedExchange.Remove(e) }
func (m covEx) Exchange(e ecs.Entity, vals []int64, rels []ecs.Relation) {
	m.hit("Exchange")
	m.TypedExchange.Exchange(e, vals, rels)
}
func (m covEx) ExchangeFn(e ecs.Entity, fn func(ps []*int64), rels []ecs.Relation) {
	m.hit("ExchangeFn")
	m.TypedExchange.ExchangeFn(e, fn, rels)
}
func (m covEx) AddBatch(b ecs.Batch, vals []int64, rels []ecs.Relation) {
	m.hit("AddBatch")
	m.TypedExchange.AddBatch(b, vals, rels)
}
func (m covEx) AddBatchFn(b ecs.Batch, fn func(e ecs.Entity, ps []*int64), rels []ecs.Relation) {
	m.hit("AddBatchFn")
	m.TypedExchange.AddBatchFn(b, fn, rels)
}
func (m covEx) RemoveBatch(b ecs.Batch, fn func(e ecs.Entity)) {
	m.hit("RemoveBatch")
	m.TypedExchange.RemoveBatch(b, fn)
}
func (m covEx) ExchangeBatch(b ecs.Batch, vals []int64, rels []ecs.Relation) {
	m.hit("ExchangeBatch")
	m.TypedExchange.ExchangeBatch(b, vals, rels)
}
func (m covEx) ExchangeBatchFn(b ecs.Batch, fn func(e ecs.Entity, ps []*int64), rels []ecs.Relation) {
	m.hit("ExchangeBatchFn")
	m.TypedExchange.ExchangeBatchFn(b, fn, rels)
}

type covFilter struct {
	TypedFilter
	c map[string]int
	p string
}

func (m covFilter) hit(s string) { covHit(m.c, m.p+"."+s) }
func (m covFilter) Register()    { m.hit("Register"); m.TypedFilter.Register() }
func (m covFilter) Unregister()  { m.hit("Unregister"); m.TypedFilter.Unregister() }
func (m covFilter) Relations(rels ...ecs.Relation) {
	m.hit("Relations")
	m.TypedFilter.Relations(rels...)
}
func (m covFilter) Batch(rels ...ecs.Relation) ecs.Batch {
	if len(rels) > 0 {
		m.hit("BatchRel")
	} else {
		m.hit("Batch")
	}
	return m.TypedFilter.Batch(rels...)
}
func (m covFilter) Query(rels ...ecs.Relation) TypedQuery {
	if len(rels) > 0 {
		m.hit("QueryRel")
	} else {
		m.hit("Query")
	}
	return m.TypedFilter.Query(rels...)
}

func covName(kind string, n int) string { return fmt.Sprintf("%s%d", kind, n) }
