package arkx

import (
	"sort"
	"strings"
)

// Coverage-guided targets of the arity driver (C14): every generated API variant is a pair (method, instantiated
// component tuple).  In arity mode, half of the operations are drawn as the least-exercised pair that is applicable
// in the current state of the world, so that every MapN / ExchangeN / FilterN method is exercised at every arity
// in states the random walk has produced (non-empty destination tables, several source tables, recycled handles).

type gridTarget struct {
	meth string
	tup  []string
}

var gridMethods = []string{
	"New.val", "New.fn", "New.noinit", "NewBatch.fn", "NewBatch.noinit", "NewBatch.val",
	"Add.val", "Add.fn", "Add.noinit", "Remove", "Set", "Exchange.val", "Exchange.fn", "Exchange.noinit",
	"AddBatch.val", "AddBatch.fn", "RemoveBatch.fn", "RemoveBatch.val", "ExchangeBatch.val", "ExchangeBatch.fn",
	"SetRel", "SetRelBatch", "QOpen", "QOpenRel", "KillBatch", "RegF",
}

func (x *Exec) gridTargets() []gridTarget {
	if x.gtargets != nil {
		return x.gtargets
	}
	for _, m := range gridMethods {
		for _, t := range x.tupleSets() {
			hasRel := false
			for _, c := range t {
				if isRelName(c) {
					hasRel = true
				}
			}
			switch {
			case strings.HasPrefix(m, "Exchange") && len(t) > 8:
				continue
			case (m == "QOpen" || m == "QOpenRel" || m == "KillBatch" || m == "RegF") && len(t) > 8:
				continue
			case (m == "SetRel" || m == "SetRelBatch" || m == "QOpenRel") && !hasRel:
				continue
			}
			x.gtargets = append(x.gtargets, gridTarget{m, t})
		}
	}
	x.ghits = make([]int, len(x.gtargets))
	if len(x.Cfg.GridArity) > 0 {
		// top-up runs: the targets of the given arities first (the others count as exercised a thousand times)
		for i, t := range x.gtargets {
			focus := false
			for _, a := range x.Cfg.GridArity {
				focus = focus || a == len(t.tup)
			}
			if !focus {
				x.ghits[i] = 1000
			}
		}
	}
	return x.gtargets
}

// gridOp returns an operation for the least-exercised applicable target.
func (x *Exec) gridOp(vs []entView, mk func(string) GenOp, fill func(o *GenOp, add []string, ord int)) (GenOp, bool) {
	return x.gridOpIn(vs, mk, fill, false)
}

// gridOpLocked: the least-exercised structural target while the world is locked - every generated structure-changing
// method of every arity must reject a locked world without effect (C07); counted separately from the unlocked hits.
func (x *Exec) gridOpLocked(vs []entView, mk func(string) GenOp, fill func(o *GenOp, add []string, ord int)) (GenOp, bool) {
	return x.gridOpIn(vs, mk, fill, true)
}

func (x *Exec) gridOpIn(vs []entView, mk func(string) GenOp, fill func(o *GenOp, add []string, ord int), locked bool) (GenOp, bool) {
	ts := x.gridTargets()
	hits := x.ghits
	idx := make([]int, 0, len(ts))
	if locked {
		if x.ghitsL == nil {
			x.ghitsL = make([]int, len(ts))
		}
		hits = x.ghitsL
	}
	for i := range ts {
		if locked && (ts[i].meth == "Set" || ts[i].meth == "QOpen" || ts[i].meth == "QOpenRel" || ts[i].meth == "RegF") {
			continue // allowed on a locked world
		}
		idx = append(idx, i)
	}
	off := x.rng.Intn(len(ts))
	sort.SliceStable(idx, func(a, b int) bool {
		ha, hb := hits[idx[a]], hits[idx[b]]
		if ha != hb {
			return ha < hb
		}
		return (idx[a]+off)%len(ts) < (idx[b]+off)%len(ts)
	})
	for k := 0; k < len(idx) && k < 60; k++ {
		if o, ok := x.gridBuild(ts[idx[k]], vs, mk, fill); ok {
			if o.Op != "New" || strings.HasPrefix(ts[idx[k]].meth, "New.") {
				hits[idx[k]]++ // (a preparation step does not count)
			}
			return o, true
		}
	}
	return GenOp{}, false
}

func (x *Exec) gridBuild(t gridTarget, vs []entView, mk func(string) GenOp, fill func(o *GenOp, add []string, ord int)) (GenOp, bool) {
	T := append([]string{}, t.tup...)
	in := map[string]bool{}
	for _, c := range T {
		in[c] = true
	}
	lacking, having := []entView{}, []entView{}
	for _, v := range vs {
		n := 0
		for _, c := range T {
			if v.has[c] {
				n++
			}
		}
		if n == 0 {
			lacking = append(lacking, v)
		}
		if n == len(T) {
			having = append(having, v)
		}
	}
	pick := func(l []entView) entView { return l[x.rng.Intn(len(l))] }
	meth, mode := t.meth, "val"
	if i := strings.Index(meth, "."); i >= 0 {
		meth, mode = t.meth[:i], t.meth[i+1:]
	}
	rels := []string{}
	for _, c := range T {
		if isRelName(c) {
			rels = append(rels, c)
		}
	}
	flt := func(with, without []string) GenFlt {
		return GenFlt{With: append([]string{}, with...), Without: append([]string{}, without...), Ft: FlexMap[int]{}, Qt: FlexMap[int]{}}
	}
	zero := func(o *GenOp) {
		for c := range o.Vals {
			o.Vals[c] = 0
		}
	}
	switch meth {
	case "New":
		o := mk("New")
		fill(&o, T, len(x.ords)+1)
		o.Mode = mode
		if mode == "noinit" {
			zero(&o)
		}
		return o, true
	case "NewBatch":
		o := mk("NewBatch")
		fill(&o, T, 0)
		o.N = 2 + x.rng.Intn(4)
		o.Mode = mode
		if mode != "val" {
			o.Vals = FlexMap[int64]{}
		}
		if x.rng.Intn(2) == 0 {
			// scripted: a single creation with the same components and the same targets first, so that the batch
			// lands in a table that already holds rows (the start row of the batch is not 0)
			pre := mk("New")
			fill(&pre, T, len(x.ords)+1)
			for c, t := range o.Tg {
				pre.Tg[c] = t
			}
			x.gqueue = append(x.gqueue, o)
			return pre, true
		}
		return o, true
	case "Add":
		if len(lacking) == 0 {
			return x.gridPrep(T, false, mk, fill)
		}
		v := pick(lacking)
		o := mk("Add")
		o.E = v.ord
		fill(&o, T, v.ord)
		o.Mode = mode
		if mode == "noinit" {
			zero(&o)
		}
		return o, true
	case "Remove":
		if len(having) == 0 {
			return x.gridPrep(T, true, mk, fill)
		}
		o := mk("Remove")
		o.E = pick(having).ord
		o.Rem = T
		return o, true
	case "Set":
		if len(having) == 0 {
			return x.gridPrep(T, true, mk, fill)
		}
		v := pick(having)
		o := mk("Set")
		o.E = v.ord
		o.Add = T
		for k, c := range T {
			o.Vals[c] = int64(5000 + 10*v.ord + k + x.rng.Intn(50)*100)
		}
		return o, true
	case "Exchange":
		cands := []entView{}
		for _, v := range lacking {
			if len(v.list) > 0 {
				cands = append(cands, v)
			}
		}
		if len(cands) == 0 {
			return GenOp{}, false
		}
		v := pick(cands)
		o := mk("Exchange")
		o.E = v.ord
		fill(&o, T, v.ord)
		o.Rem = x.plainSubset(v.list, 1)
		o.Mode = mode
		if mode == "noinit" {
			zero(&o)
		}
		return o, true
	case "AddBatch":
		if len(lacking) == 0 {
			return x.gridPrep(T, false, mk, fill)
		}
		o := mk("AddBatch")
		o.Mode = mode
		o.Add = T
		for _, c := range T {
			o.Vals[c] = int64(8000 + x.rng.Intn(100))
			if isRelName(c) {
				o.Tg[c] = x.pickTarget(vs)
			}
		}
		with := []string{}
		v := pick(lacking)
		if len(v.list) > 0 && x.rng.Intn(2) == 0 {
			with = []string{v.list[x.rng.Intn(len(v.list))]}
		}
		o.Flt = flt(with, T)
		if x.rng.Intn(2) == 0 && len(vs)+1 < x.maxEnt() {
			// scripted: make the destination table non-empty first (copy an entity, add T to the copy)
			cp := mk("Copy")
			cp.E = v.ord
			ad := mk("Add")
			ad.E = len(x.ords) + 1
			fill(&ad, T, ad.E)
			x.gqueue = append(x.gqueue, ad, o)
			return cp, true
		}
		return o, true
	case "RemoveBatch":
		if len(having) == 0 {
			return x.gridPrep(T, true, mk, fill)
		}
		o := mk("RemoveBatch")
		o.Mode = mode
		o.Rem = T
		o.Flt = flt(T, nil)
		x.maybeRegistered(&o)
		if x.rng.Intn(2) == 0 && len(vs)+1 < x.maxEnt() {
			// scripted: a non-empty destination table (copy an entity, remove T from the copy)
			cp := mk("Copy")
			cp.E = pick(having).ord
			rm := mk("Remove")
			rm.E = len(x.ords) + 1
			rm.Rem = T
			x.gqueue = append(x.gqueue, rm, o)
			return cp, true
		}
		return o, true
	case "ExchangeBatch":
		// remove one component that some entity without any of T has
		cands := []string{}
		seen := map[string]bool{}
		for _, v := range lacking {
			for _, c := range v.list {
				if !seen[c] {
					seen[c] = true
					cands = append(cands, c)
				}
			}
		}
		if len(cands) == 0 {
			return GenOp{}, false
		}
		sort.Strings(cands)
		c := cands[x.rng.Intn(len(cands))]
		o := mk("ExchangeBatch")
		o.Mode = mode
		o.Add = T
		o.Rem = []string{c}
		for _, a := range T {
			o.Vals[a] = int64(7000 + x.rng.Intn(100))
			if isRelName(a) {
				o.Tg[a] = x.pickTarget(vs)
			}
		}
		o.Flt = flt([]string{c}, T)
		if x.rng.Intn(2) == 0 && len(vs)+1 < x.maxEnt() {
			// scripted: a non-empty destination table (copy an entity, exchange on the copy)
			srcs := []entView{}
			for _, v := range lacking {
				if v.has[c] {
					srcs = append(srcs, v)
				}
			}
			cp := mk("Copy")
			cp.E = pick(srcs).ord
			ex := mk("Exchange")
			ex.E = len(x.ords) + 1
			fill(&ex, T, ex.E)
			ex.Rem = []string{c}
			x.gqueue = append(x.gqueue, ex, o)
			return cp, true
		}
		return o, true
	case "SetRel":
		r := rels[x.rng.Intn(len(rels))]
		cands := []entView{}
		for _, v := range vs {
			if v.has[r] {
				cands = append(cands, v)
			}
		}
		if len(cands) == 0 {
			return GenOp{}, false
		}
		o := mk("SetRel")
		o.E = pick(cands).ord
		o.Tg[r] = x.pickTarget(vs)
		o.Tup = T
		return o, true
	case "SetRelBatch":
		r := rels[x.rng.Intn(len(rels))]
		found := false
		for _, v := range vs {
			if v.has[r] {
				found = true
			}
		}
		if !found {
			return GenOp{}, false
		}
		o := mk("SetRelBatch")
		o.Mode = "fn"
		o.Flt = flt([]string{r}, nil)
		o.Tg[r] = x.pickTarget(vs)
		o.Tup = T
		if x.rng.Intn(2) == 0 && len(vs)+1 < x.maxEnt() {
			// scripted: one entity already has the new target (its table is the destination of the others)
			srcs := []entView{}
			for _, v := range vs {
				if v.has[r] {
					srcs = append(srcs, v)
				}
			}
			cp := mk("Copy")
			cp.E = pick(srcs).ord
			sr := mk("SetRel")
			sr.E = len(x.ords) + 1
			sr.Tg[r] = o.Tg[r]
			x.gqueue = append(x.gqueue, sr, o)
			return cp, true
		}
		return o, true
	case "QOpen", "QOpenRel":
		if x.Cfg.Queries == 0 || len(x.queries) >= x.Cfg.Queries {
			return GenOp{}, false
		}
		o := mk("QOpen")
		o.Q = 1
		for x.queries[o.Q] != nil {
			o.Q++
		}
		o.Flt = flt(T, nil)
		if meth == "QOpenRel" {
			r := rels[x.rng.Intn(len(rels))]
			o.Flt.Qt[r] = x.pickTarget(vs)
			if x.Cfg.Queries >= 2 && len(x.queries) == 0 && x.rng.Intn(2) == 0 {
				// scripted: the same filter object is used for a batch with a per-call target, then for two
				// simultaneously open queries with different targets
				b := mk("SetRelBatch")
				b.Mode = "fn"
				b.Flt = flt(T, nil)
				b.Flt.Qt[r] = x.pickTarget(vs)
				b.Tg[r] = b.Flt.Qt[r] // (no entity changes)
				o2 := mk("QOpen")
				o2.Q = o.Q + 1
				o2.Flt = flt(T, nil)
				o2.Flt.Qt[r] = x.pickTarget(vs)
				nx := mk("QNext")
				nx.Q = o.Q
				x.remember(o.Flt)
				x.gqueue = append(x.gqueue, o, o2, nx)
				return b, true
			}
		}
		x.remember(o.Flt)
		return o, true
	case "KillBatch":
		if len(having) == 0 || len(vs) < 4 {
			return GenOp{}, false
		}
		o := mk("KillBatch")
		o.Mode = "fn"
		o.Flt = flt(T, nil)
		if len(rels) > 0 && x.rng.Intn(3) == 0 {
			// an unregistered filter with a target fixed in the filter (FilterN.Relations): the target of one of the
			// entities that have the tuple, so that the selection is a proper part of them
			v := pick(having)
			c := rels[x.rng.Intn(len(rels))]
			if t := x.ordOf(x.readTarget(x.ent(v.ord), c)); t >= 0 {
				o.Flt.Ft[c] = t
			}
		}
		return o, true
	case "RegF":
		for id := 1; id <= 4; id++ {
			if _, ok := x.filters[id]; !ok {
				o := mk("RegF")
				o.F = id
				o.Flt = flt(T, nil)
				// half of the registered filters of a tuple with relation components fix their targets in the filter
				for _, c := range rels {
					if x.rng.Intn(2) == 0 {
						o.Flt.Ft[c] = x.pickTarget(vs)
					}
				}
				return o, true
			}
		}
		return GenOp{}, false
	}
	return GenOp{}, false
}

// gridPrep prepares the state for a target that is not applicable yet: an entity with all of T (having) or with
// none of T.  The preparation is an ordinary creation; the target is drawn again later.
func (x *Exec) gridPrep(T []string, having bool, mk func(string) GenOp, fill func(o *GenOp, add []string, ord int)) (GenOp, bool) {
	o := mk("New")
	if having {
		fill(&o, T, len(x.ords)+1)
		return o, true
	}
	in := map[string]bool{}
	for _, c := range T {
		in[c] = true
	}
	other := []string{}
	for _, c := range x.Cfg.Comps {
		if !in[c] && x.rng.Intn(3) == 0 {
			other = append(other, c)
		}
	}
	if len(other) > 3 {
		other = other[:3]
	}
	if len(other) == 3 {
		// triples must be instantiated: keep pairs of model components only
		other = other[:2]
	}
	for _, c := range other {
		if _, ok := mapCtors[c]; !ok {
			other = nil
		}
	}
	if len(other) == 2 {
		if _, ok := mapCtors[other[0]+","+other[1]]; !ok {
			other = other[:1]
		}
	}
	fill(&o, other, len(x.ords)+1)
	return o, true
}

func (x *Exec) maxEnt() int {
	if x.Cfg.MaxEnt > 0 {
		return x.Cfg.MaxEnt
	}
	return 24
}

// plainSubset draws a non-empty random subset (not restricted to instantiated tuples).
func (x *Exec) plainSubset(from []string, min int) []string {
	r := []string{}
	for _, c := range from {
		if x.rng.Intn(3) == 0 {
			r = append(r, c)
		}
	}
	if len(r) < min && len(from) > 0 {
		r = []string{from[x.rng.Intn(len(from))]}
	}
	return r
}
