package arkx

import (
	"fmt"
	"strings"
	"unsafe"

	"github.com/mlange-42/ark/ecs"
)

// Cursor conformance (ArkCursor.tla): every sequence of Next / Ent / Get / Close calls up to a given length is run
// on fresh queries of every kind (Query0, typed QueryN, with / without a per-query relation target, of a
// registered filter, ID-based) over a set of table layouts built in the real world.  The layout is described by
// its construction (archetypes and tables in creation order, rows in creation order, trailing rows removed
// again); the monitor ArkCurTrace evaluates ArkCursor!Run for each sequence and compares panic flag, result and
// world lock after every call.

type CurTab struct {
	Rows []int `json:"rows"` // creation ordinals in row order
	Ok   bool  `json:"ok"`   // matches the relation targets of the query
}
type CurArch struct {
	M    bool     `json:"m"`
	Rel  bool     `json:"rel"`
	Tabs []CurTab `json:"tabs"`
}
type LogCurLayout struct {
	K      string    `json:"k"` // "curlayout"
	Name   string    `json:"name"`
	Kind   string    `json:"kind"`
	Cached bool      `json:"cached"`
	Lay    []CurArch `json:"lay"`
}
type CurOut struct {
	Panic bool `json:"panic"`
	Res   int  `json:"res"`
	Lock  bool `json:"lock"`
}
type LogCur struct {
	K     string   `json:"k"` // "cur"
	Calls []string `json:"calls"`
	Out   []CurOut `json:"out"`
}

// construction: archetypes in creation order; per table the relation targets (ordinals of target entities, 0: none),
// the number of entities created and how many of the last ones are removed again
type curTabSpec struct {
	r, s    int
	n, kill int
}
type curArchSpec struct {
	comps []string
	tabs  []curTabSpec
}

var curLayouts = map[string][]curArchSpec{
	"two-rows":   {{[]string{"A"}, []curTabSpec{{0, 0, 2, 0}}}},
	"only-empty": {{[]string{"A", "R"}, []curTabSpec{{1, 0, 2, 2}}}},
	"none":       {},
	"mixed": {
		{[]string{"A", "B"}, []curTabSpec{{0, 0, 1, 1}}},
		{[]string{"A", "R"}, []curTabSpec{{1, 0, 1, 0}, {2, 0, 2, 2}, {3, 0, 2, 0}}},
		{[]string{"B"}, []curTabSpec{{0, 0, 1, 0}}},
		{[]string{"A"}, []curTabSpec{{0, 0, 1, 0}}},
		{[]string{"A", "B", "R"}, []curTabSpec{{1, 0, 3, 1}}},
	},
	"two-relations": {
		{[]string{"A", "R", "S"}, []curTabSpec{{1, 2, 3, 0}, {2, 1, 1, 0}, {1, 3, 2, 0}, {3, 3, 1, 1}}},
		{[]string{"A", "B", "R", "S"}, []curTabSpec{{2, 2, 1, 0}, {1, 1, 1, 0}}},
	},
	// every archetype holds the components of the high-arity tuples (A,B,C,R,S,F1,F2,F3): a relation archetype whose
	// tables are all empty, one whose first table does not match target 1, one with an empty table in between
	"high": {
		{[]string{"A", "B", "C", "R", "S", "F1", "F2", "F3"}, []curTabSpec{{1, 1, 2, 2}, {2, 1, 1, 1}}},
		{[]string{"A", "B", "C", "R", "S", "F1", "F2", "F3", "F4"}, []curTabSpec{{2, 1, 2, 0}, {1, 1, 1, 0}}},
		{[]string{"A", "B", "C", "R", "S", "F1", "F2", "F3", "F5"}, []curTabSpec{{1, 2, 1, 1}}},
		{[]string{"A", "B", "C", "R", "S", "F1", "F2", "F3", "F4", "F5"}, []curTabSpec{{1, 2, 2, 0}, {3, 3, 1, 1}, {1, 3, 1, 0}}},
	},
}

type curQuery interface {
	Next() bool
	Ent() ecs.Entity
	Get() int64 // value of component A of the current entity (1000 + creation ordinal)
	Close()
	Count() int
	At(i int) ecs.Entity
}

type curTyped struct{ q TypedQuery }

func (c curTyped) Next() bool      { return c.q.Next() }
func (c curTyped) Ent() ecs.Entity { return c.q.Entity() }

// Get: every component of the tuple holds the same value (1000 + creation ordinal); a pointer that addresses another
// row or another column shows as a disagreement
func (c curTyped) Get() int64 {
	ps := c.q.Get()
	v := *ps[0]
	for _, p := range ps[1:] {
		if *p != v {
			return -5
		}
	}
	return v
}
func (c curTyped) Close()              { c.q.Close() }
func (c curTyped) Count() int          { return c.q.Count() }
func (c curTyped) At(i int) ecs.Entity { return c.q.EntityAt(i) }

type curQ0 struct{ q *ecs.Query0 }

func (c curQ0) Next() bool          { return c.q.Next() }
func (c curQ0) Ent() ecs.Entity     { return c.q.Entity() }
func (c curQ0) Get() int64          { return 1000 + int64(c.q.Entity().ID()) - 1 }
func (c curQ0) Close()              { c.q.Close() }
func (c curQ0) Count() int          { return c.q.Count() }
func (c curQ0) At(i int) ecs.Entity { return c.q.EntityAt(i) }

type curUnsafe struct {
	q  *ecs.UnsafeQuery
	id ecs.ID
}

func (c curUnsafe) Next() bool          { return c.q.Next() }
func (c curUnsafe) Ent() ecs.Entity     { return c.q.Entity() }
func (c curUnsafe) Get() int64          { return *(*int64)(unsafe.Pointer(c.q.Get(c.id))) }
func (c curUnsafe) Close()              { c.q.Close() }
func (c curUnsafe) Count() int          { return c.q.Count() }
func (c curUnsafe) At(i int) ecs.Entity { return c.q.EntityAt(i) }

// CursorRun executes all call sequences up to maxLen on every layout and query kind.
func (x *Exec) CursorRun(maxLen int) {
	// all sequences over the cursor calls up to maxLen, and over the cursor calls plus Count / EntityAt(0) /
	// EntityAt(Count) (which do not depend on the cursor) up to length 4
	seqs := [][]string{}
	seen := map[string]bool{}
	var gen func(calls []string, limit int, prefix []string)
	gen = func(calls []string, limit int, prefix []string) {
		if len(prefix) > 0 {
			if k := strings.Join(prefix, ","); !seen[k] {
				seen[k] = true
				seqs = append(seqs, append([]string{}, prefix...))
			}
		}
		if len(prefix) == limit {
			return
		}
		for _, c := range calls {
			gen(calls, limit, append(prefix, c))
		}
	}
	gen([]string{"Next", "Ent", "Get", "Close"}, maxLen, nil)
	lim := 4
	if maxLen < lim {
		lim = maxLen
	}
	gen([]string{"Next", "Ent", "Get", "Close", "Count", "At0", "AtN"}, lim, nil)
	for _, name := range sortedKeys(curLayouts) {
		spec := curLayouts[name]
		x.seq++
		x.Cfg.Comps = []string{"A", "B", "C", "R", "S", "F1", "F2", "F3", "F4", "F5"}
		x.newWorld()
		w := x.w
		x.emit(LogReset{K: "reset", Seq: x.seq, Rel: x.relNames(), Cfg: x.Cfg, Note: "cursor layout " + name})
		// three target entities (ordinals 1..3) in the archetype without components
		ord := map[ecs.Entity]int{}
		targets := []ecs.Entity{{}}
		n := 0
		for i := 0; i < 3; i++ {
			n++
			t := w.NewEntity()
			ord[t] = n
			targets = append(targets, t)
		}
		type built struct {
			comps []string
			rows  [][]int
			r, s  []int
		}
		archs := []built{{comps: []string{}, rows: [][]int{{1, 2, 3}}, r: []int{0}, s: []int{0}}}
		u := w.Unsafe()
		for _, a := range spec {
			b := built{comps: a.comps}
			for _, t := range a.tabs {
				rels := []ecs.Relation{}
				ids := []ecs.ID{}
				for _, c := range a.comps {
					ids = append(ids, x.ids[c])
					if c == "R" {
						rels = append(rels, ecs.RelID(x.ids[c], targets[t.r]))
					}
					if c == "S" {
						rels = append(rels, ecs.RelID(x.ids[c], targets[t.s]))
					}
				}
				es := []ecs.Entity{}
				rows := []int{}
				for i := 0; i < t.n; i++ {
					n++
					var e ecs.Entity
					if len(rels) > 0 {
						e = u.NewEntityRel(ids, rels...)
					} else {
						e = u.NewEntity(ids...)
					}
					ord[e] = n
					for _, c := range a.comps {
						*x.payload(c, u.Get(e, x.ids[c])) = 1000 + int64(n)
					}
					es = append(es, e)
					rows = append(rows, n)
				}
				for i := 0; i < t.kill; i++ {
					w.RemoveEntity(es[len(es)-1-i])
				}
				b.rows = append(b.rows, rows[:len(rows)-t.kill])
				b.r = append(b.r, t.r)
				b.s = append(b.s, t.s)
			}
			archs = append(archs, b)
		}
		has := func(cs []string, c string) bool {
			for _, d := range cs {
				if d == c {
					return true
				}
			}
			return false
		}
		// descriptor for a query with the given required components and relation target on R (0: none)
		describe := func(with []string, rt int) []CurArch {
			lay := []CurArch{}
			for _, b := range archs {
				m := true
				for _, c := range with {
					m = m && has(b.comps, c)
				}
				ca := CurArch{M: m, Rel: has(b.comps, "R") || has(b.comps, "S"), Tabs: []CurTab{}}
				for i, rows := range b.rows {
					ok := rt == 0 || !has(b.comps, "R") || b.r[i] == rt
					ca.Tabs = append(ca.Tabs, CurTab{Rows: append([]int{}, rows...), Ok: ok})
				}
				lay = append(lay, ca)
			}
			return lay
		}
		type kind struct {
			name   string
			with   []string
			rt     int
			cached bool
			mk     func() curQuery
			high   bool // a high-arity kind: run on the layouts whose archetypes can match it
		}
		kinds := []kind{
			{"query0", nil, 0, false, func() curQuery { q := ecs.NewFilter0(w).Query(); return curQ0{&q} }, false},
			{"unsafe", []string{"A"}, 0, false, func() curQuery {
				q := ecs.NewUnsafeFilter(w, x.ids["A"]).Query()
				return curUnsafe{&q, x.ids["A"]}
			}, false},
		}
		hi := []string{"A", "B", "C", "R", "S", "F1", "F2", "F3"}
		for _, tup := range [][]string{{"A"}, {"A", "B"}, {"A", "R"}, {"A", "B", "R"}, hi[:4], hi[:5], hi[:6], hi[:7], hi[:8]} {
			tup := tup
			key := strings.Join(tup, ",")
			ctor, ok := filterCtors[key]
			if !ok {
				panic(harnessBug{"no filter instantiation for " + key})
			}
			hasR := has(tup, "R")
			// the ID-based twin of the typed query: same component list, same per-query target
			for _, rt := range []int{0, 1} {
				if (rt != 0 && !hasR) || len(tup) == 1 {
					continue
				}
				rt := rt
				ids := x.idsOf(tup)
				rels := []ecs.Relation{}
				if rt != 0 {
					rels = append(rels, ecs.RelID(x.ids["R"], targets[rt]))
				}
				kinds = append(kinds, kind{fmt.Sprintf("unsafe%d", len(tup)), tup, rt, false, func() curQuery {
					q := ecs.NewUnsafeFilter(w, ids...).Query(rels...)
					return curUnsafe{&q, x.ids["A"]}
				}, len(tup) > 3})
			}
			for _, cached := range []bool{false, true} {
				for _, rt := range []int{0, 1} {
					if rt != 0 && !hasR {
						continue
					}
					cached, rt := cached, rt
					f := ctor(w)
					if cached {
						f.Register()
					}
					rels := []ecs.Relation{}
					if rt != 0 {
						rels = append(rels, ecs.RelID(x.ids["R"], targets[rt]))
					}
					kinds = append(kinds, kind{fmt.Sprintf("typed%d", len(tup)), tup, rt, cached,
						func() curQuery { return curTyped{f.Query(rels...)} }, len(tup) > 3})
				}
			}
		}
		for _, k := range kinds {
			if k.high && name != "high" && name != "two-relations" {
				continue
			}
			lay := describe(k.with, k.rt)
			if k.name == "query0" {
				for i := range lay {
					lay[i].M = true
				}
			}
			x.emit(LogCurLayout{K: "curlayout", Name: name, Kind: fmt.Sprintf("%s rt=%d", k.name, k.rt), Cached: k.cached, Lay: lay})
			for _, s := range seqs {
				ev := LogCur{K: "cur", Calls: s, Out: make([]CurOut, 0, len(s))}
				q := k.mk()
				for _, c := range s {
					o := CurOut{}
					func() {
						defer func() {
							if r := recover(); r != nil {
								o.Panic = true
							}
						}()
						switch c {
						case "Next":
							if q.Next() {
								o.Res = 1
							}
						case "Ent":
							o.Res = ord[q.Ent()]
						case "Get":
							if k.name == "query0" {
								o.Res = ord[q.Ent()]
							} else {
								o.Res = int(q.Get() - 1000)
							}
						case "Close":
							q.Close()
						case "Count":
							o.Res = q.Count()
						case "At0":
							o.Res = ord[q.At(0)]
						case "AtN":
							o.Res = ord[q.At(q.Count())]
						}
					}()
					o.Lock = w.IsLocked()
					ev.Out = append(ev.Out, o)
				}
				func() {
					defer func() { _ = recover() }()
					q.Close()
				}()
				if w.IsLocked() {
					// the lock leaked: report and start over with a fresh query kind (the monitor has seen the lock flags)
					x.emit(ev)
					x.emit(LogBroken{K: "broken", Where: "cursor run", Msg: "world still locked after Close"})
					return
				}
				x.emit(ev)
			}
		}
	}
}
