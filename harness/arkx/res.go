package arkx

import (
	"sort"
	"unsafe"

	"github.com/mlange-42/ark/ecs"
)

// Resources (layer A: w.res, a partial map from resource type to value; C18 / C16).  Three resource types with an
// int64 payload; every operation goes through the API path of the cell: the typed ecs.Resource[T] handle
// (long-lived, created with the world - it must survive Reset), or World.Resources() with resource IDs, or the
// free functions ecs.AddResource / ecs.GetResource (cells with Mapt).

type ResX struct{ V int64 }
type ResY struct{ V, pad int64 }
type ResZ struct {
	V   int64
	ptr *int64
}

var resNames = []string{"X", "Y", "Z"}

type resHandle interface {
	add(w *ecs.World, v int64)
	remove(w *ecs.World)
	has(w *ecs.World) bool
	get(w *ecs.World) (int64, bool)
	set(w *ecs.World, v int64)
	rebind(w *ecs.World)
	curID(w *ecs.World) int // the id the world gives the type now (a fresh lookup)
	boundID() int           // the id the long-lived handle was bound to when the world was set up
}

type resImpl[T any] struct {
	path string
	h    ecs.Resource[T]
	id   ecs.ResID
}

func newRes[T any](w *ecs.World, path string) *resImpl[T] {
	r := &resImpl[T]{path: path}
	r.rebind(w)
	return r
}

// rebind: a new world object (Load into a fresh world) needs new handles; Reset does not
func (r *resImpl[T]) rebind(w *ecs.World) {
	r.h = ecs.NewResource[T](w)
	r.id = ecs.ResourceID[T](w)
}

func (r *resImpl[T]) curID(w *ecs.World) int { return int(ecs.ResourceID[T](w).Index()) }
func (r *resImpl[T]) boundID() int           { return int(r.id.Index()) }

func payload[T any](p *T) *int64 { return (*int64)(unsafe.Pointer(p)) }

func (r *resImpl[T]) add(w *ecs.World, v int64) {
	t := new(T)
	*payload(t) = v
	switch r.path {
	case "unsafe":
		w.Resources().Add(r.id, t)
	case "func":
		ecs.AddResource(w, t)
	default:
		r.h.Add(t)
	}
}

func (r *resImpl[T]) remove(w *ecs.World) {
	if r.path == "typed" {
		r.h.Remove()
		return
	}
	w.Resources().Remove(r.id)
}

func (r *resImpl[T]) has(w *ecs.World) bool {
	if r.path == "typed" {
		return r.h.Has()
	}
	return w.Resources().Has(r.id)
}

func (r *resImpl[T]) ptr(w *ecs.World) *T {
	switch r.path {
	case "unsafe":
		v := w.Resources().Get(r.id)
		if v == nil {
			return nil
		}
		return v.(*T)
	case "func":
		return ecs.GetResource[T](w)
	}
	return r.h.Get()
}

func (r *resImpl[T]) get(w *ecs.World) (int64, bool) {
	p := r.ptr(w)
	if p == nil {
		return 0, false
	}
	return *payload(p), true
}

func (r *resImpl[T]) set(w *ecs.World, v int64) {
	*payload(r.ptr(w)) = v
}

func (x *Exec) resPath() string {
	if x.Cfg.Path == "unsafe" {
		return "unsafe"
	}
	if x.Cfg.MapT {
		return "func"
	}
	return "typed"
}

func (x *Exec) initResources() {
	p := x.resPath()
	x.res = map[string]resHandle{"X": newRes[ResX](x.w, p), "Y": newRes[ResY](x.w, p), "Z": newRes[ResZ](x.w, p)}
}

// resState is the projection of the resources: type -> value, for every resource that is present.  Has and Get
// must agree; a disagreement is reported as the impossible value -779.
func (x *Exec) resState() map[string]int64 {
	m := map[string]int64{}
	if x.res == nil {
		return m
	}
	names := append([]string{}, resNames...)
	sort.Strings(names)
	for _, n := range names {
		h := x.res[n]
		has := h.has(x.w)
		v, ok := h.get(x.w)
		if has != ok {
			m[n] = -779
		} else if has {
			m[n] = v
		}
	}
	return m
}

// resIDs: the id of every resource type as the world reports it now, and as it was when the world was set up
// (C18: a resource type always maps to the same id - also across Reset).
func (x *Exec) resIDs() (cur, bound map[string]int) {
	cur, bound = map[string]int{}, map[string]int{}
	// (asked in a rotating order: a registry that forgot its types would hand out ids in the order of asking)
	x.resRot++
	for k := range resNames {
		n := resNames[(k+x.resRot)%len(resNames)]
		if h, ok := x.res[n]; ok {
			cur[n] = h.curID(x.w)
			bound[n] = h.boundID()
		}
	}
	return
}

func (x *Exec) resOp(op GenOp) {
	h, ok := x.res[op.Ev]
	if !ok {
		panic(harnessBug{"unknown resource " + op.Ev})
	}
	switch op.Op {
	case "ResAdd":
		h.add(x.w, op.Vals[op.Ev])
	case "ResRemove":
		h.remove(x.w)
	case "ResSet":
		h.set(x.w, op.Vals[op.Ev])
	}
}
