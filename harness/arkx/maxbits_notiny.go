//go:build !ark_tiny

package arkx

// MaskTotalBits is the documented maximum number of component types of this build.
const MaskTotalBits = 256
