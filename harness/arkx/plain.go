package arkx

import (
	"encoding/json"
	"fmt"
	"reflect"
	"strings"

	"github.com/mlange-42/ark/ecs"
)

// The log must not depend on the JSON encoding of entities that the library under test provides (that encoding
// is itself part of C17).  entityJSONUsable tests it once; if it does not encode handles as [id, gen] wherever
// they occur (by value, in maps, in slices), events are encoded by plainJSON, which writes handles from ID()
// and Gen() and otherwise follows encoding/json (field tags, omitempty, nil slices as null).

var entityType = reflect.TypeFor[ecs.Entity]()

var entityJSONUsable = func() (ok bool) {
	defer func() {
		if recover() != nil {
			ok = false
		}
	}()
	var e, z ecs.Entity
	if json.Unmarshal([]byte("[7,3]"), &e) != nil || e.ID() != 7 || e.Gen() != 3 {
		// cannot even build a non-zero handle here; test with the zero handle only
		e = z
	}
	want := fmt.Sprintf("[%d,%d]", e.ID(), e.Gen())
	probe := struct {
		E ecs.Entity
		S []ecs.Entity
		M map[string]ecs.Entity
		A [1]ecs.Entity
	}{e, []ecs.Entity{e}, map[string]ecs.Entity{"k": e}, [1]ecs.Entity{e}}
	b, err := json.Marshal(probe)
	if err != nil {
		return false
	}
	b2, err := json.Marshal(&probe)
	if err != nil {
		return false
	}
	exp := fmt.Sprintf(`{"E":%s,"S":[%s],"M":{"k":%s},"A":[%s]}`, want, want, want, want)
	return string(b) == exp && string(b2) == exp
}()

func plainJSON(v any) ([]byte, error) {
	return json.Marshal(plain(reflect.ValueOf(v)))
}

func plain(v reflect.Value) any {
	if !v.IsValid() {
		return nil
	}
	if v.Type() == entityType {
		e := v.Interface().(ecs.Entity)
		return [2]uint32{e.ID(), e.Gen()}
	}
	switch v.Kind() {
	case reflect.Pointer, reflect.Interface:
		if v.IsNil() {
			return nil
		}
		return plain(v.Elem())
	case reflect.Struct:
		out := map[string]any{}
		t := v.Type()
		for i := 0; i < t.NumField(); i++ {
			f := t.Field(i)
			if !f.IsExported() {
				continue
			}
			name, omit := f.Name, false
			if tag, ok := f.Tag.Lookup("json"); ok {
				parts := strings.Split(tag, ",")
				if parts[0] == "-" {
					continue
				}
				if parts[0] != "" {
					name = parts[0]
				}
				for _, p := range parts[1:] {
					if p == "omitempty" {
						omit = true
					}
				}
			}
			fv := v.Field(i)
			if omit && isEmptyValue(fv) {
				continue
			}
			out[name] = plain(fv)
		}
		return out
	case reflect.Slice:
		if v.IsNil() {
			return nil
		}
		if v.Type().Elem().Kind() == reflect.Uint8 {
			return v.Interface() // []byte: base64 as encoding/json does
		}
		fallthrough
	case reflect.Array:
		out := make([]any, v.Len())
		for i := range out {
			out[i] = plain(v.Index(i))
		}
		return out
	case reflect.Map:
		if v.IsNil() {
			return nil
		}
		out := map[string]any{}
		it := v.MapRange()
		for it.Next() {
			out[fmt.Sprint(it.Key().Interface())] = plain(it.Value())
		}
		return out
	}
	return v.Interface()
}

func isEmptyValue(v reflect.Value) bool {
	switch v.Kind() {
	case reflect.Array, reflect.Map, reflect.Slice, reflect.String:
		return v.Len() == 0
	case reflect.Bool, reflect.Int, reflect.Int8, reflect.Int16, reflect.Int32, reflect.Int64,
		reflect.Uint, reflect.Uint8, reflect.Uint16, reflect.Uint32, reflect.Uint64, reflect.Uintptr,
		reflect.Float32, reflect.Float64, reflect.Interface, reflect.Pointer:
		return v.IsZero()
	}
	return false
}
