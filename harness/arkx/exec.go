package arkx

import (
	"bufio"
	"encoding/json"
	"fmt"
	"hash/fnv"
	"io"
	"math/rand"
	"os"
	"reflect"
	"runtime"
	"sort"
	"strings"
	"sync/atomic"
	"time"
	"unsafe"

	"github.com/mlange-42/ark/ecs"
)

// ---------------------------------------------------------------------------------------
// Input: operation sequences as printed by TLC (ToJson of ArkGen's hist).

// FlexMap accepts a JSON object or (TLC's rendering of an empty function) an empty array.
type FlexMap[T any] map[string]T

func (m *FlexMap[T]) UnmarshalJSON(b []byte) error {
	s := strings.TrimSpace(string(b))
	*m = FlexMap[T]{}
	if strings.HasPrefix(s, "[") || s == "null" {
		return nil
	}
	mm := map[string]T{}
	if err := json.Unmarshal(b, &mm); err != nil {
		return err
	}
	*m = mm
	return nil
}

type GenFlt struct {
	With    []string     `json:"with"`
	Without []string     `json:"without"`
	Excl    bool         `json:"excl"`
	Ft      FlexMap[int] `json:"ft"`
	Qt      FlexMap[int] `json:"qt"`
}

// GenOp is one generated operation; entities are creation ordinals (0 = zero entity).
type GenOp struct {
	Op   string         `json:"op"`
	E    int            `json:"e"`
	Add  []string       `json:"add"`
	Rem  []string       `json:"rem"`
	Vals FlexMap[int64] `json:"vals"`
	Tg   FlexMap[int]   `json:"tg"`
	N    int            `json:"n"`
	F    int            `json:"f"`
	Flt  GenFlt         `json:"flt"`
	Mode string         `json:"mode"`
	Q    int            `json:"q"`
	O    int            `json:"o"`
	Obs  GenObs         `json:"obs"`
	Ev   string         `json:"ev"`
	// Tup (optional) names the typed component tuple through which SetRel / SetRelBatch go (MapN at arity N)
	Tup []string `json:"tup,omitempty"`
}

// GenObs is an observer specification.
type GenObs struct {
	Ev      string   `json:"ev"`
	Obs     []string `json:"obs"`
	With    []string `json:"with"`
	Without []string `json:"without"`
	Excl    bool     `json:"excl"`
}

// ---------------------------------------------------------------------------------------
// Output: ndjson events (schema: DESIGN.md appendix C).

type LogFlt struct {
	With    []string              `json:"with"`
	Without []string              `json:"without"`
	Excl    bool                  `json:"excl"`
	Ft      map[string]ecs.Entity `json:"ft"`
	Qt      map[string]ecs.Entity `json:"qt"`
}

type EntRec struct {
	E ecs.Entity            `json:"e"`
	C []string              `json:"c"`
	V map[string]int64      `json:"v"`
	T map[string]ecs.Entity `json:"t"`
}

type State struct {
	Alive  []ecs.Entity     `json:"alive"`
	Dead   []ecs.Entity     `json:"dead"`
	Ents   []EntRec         `json:"ents"`
	Locked bool             `json:"locked"`
	Used   int              `json:"used"`
	Res    map[string]int64 `json:"res"`  // resources present: type -> value
	RelC   []string         `json:"relc"` // the model components the registry reports as relation components
	// resource type -> id, as the world reports it now and as it was when the world was set up
	ResID  map[string]int `json:"resid"`
	ResID0 map[string]int `json:"resid0"`
	// handles issued before the last Reset that the world reports alive (they must have been issued again since)
	OldAlive []ecs.Entity `json:"oldalive"`
	NTypes   int          `json:"ntypes"` // number of registered component types
}

type BVal struct {
	E ecs.Entity       `json:"e"`
	V map[string]int64 `json:"v"`
}

// TabCap is size and capacity of one table after a Shrink, with the initial capacity that applies to it.
type TabCap struct {
	Size   int `json:"size"`
	Cap    int `json:"cap"`
	MinCap int `json:"mincap"`
}

func (x *Exec) tableCaps() []TabCap {
	r := []TabCap{}
	capN, capR := 1024, 128
	switch len(x.Cfg.Caps) {
	case 1:
		capN, capR = x.Cfg.Caps[0], x.Cfg.Caps[0]
	case 2:
		capN, capR = x.Cfg.Caps[0], x.Cfg.Caps[1]
	}
	st := x.w.Stats()
	for i := range st.Archetypes {
		a := &st.Archetypes[i]
		mc := capN
		if a.NumRelations > 0 {
			mc = capR
		}
		for _, t := range a.Tables {
			r = append(r, TabCap{Size: t.Size, Cap: t.Capacity, MinCap: mc})
		}
	}
	return r
}

// StatsRec is a deep copy of World.Stats() with component names instead of types.
type StatsArch struct {
	Comps        []string `json:"comps"`
	Size         int      `json:"size"`
	Capacity     int      `json:"capacity"`
	NumRelations int      `json:"numrel"`
	Memory       int      `json:"memory"`
	MemoryUsed   int      `json:"memoryused"`
	MemPerEntity int      `json:"mpe"`
	FreeTables   int      `json:"freetables"`
	Tables       [][4]int `json:"tables"` // size, capacity, memory, memoryused
}

type StatsRec struct {
	Used, Recycled, Total, Capacity int
	Memory, MemoryUsed              int
	CachedFilters, Observers        int
	Locked                          bool
	NumTypes                        int
	Archs                           []StatsArch
	Sizes                           map[string]int // byte size of each model component type
}

func (x *Exec) statsRec() StatsRec {
	st := x.w.Stats()
	r := StatsRec{Used: st.Entities.Used, Recycled: st.Entities.Recycled, Total: st.Entities.Total, Capacity: st.Entities.Capacity,
		Memory: st.Memory, MemoryUsed: st.MemoryUsed, CachedFilters: st.CachedFilters, Observers: st.Observers, Locked: st.Locked,
		NumTypes: len(st.ComponentTypeNames), Archs: []StatsArch{}, Sizes: map[string]int{}}
	for _, c := range x.Cfg.Comps {
		r.Sizes[c] = int(compTypes[c].Size())
	}
	for i := range st.Archetypes {
		a := &st.Archetypes[i]
		sa := StatsArch{Comps: []string{}, Size: a.Size, Capacity: a.Capacity, NumRelations: a.NumRelations, Memory: a.Memory,
			MemoryUsed: a.MemoryUsed, MemPerEntity: a.MemoryPerEntity, FreeTables: a.FreeTables, Tables: [][4]int{}}
		for _, id := range a.ComponentIDs {
			n := "?"
			for name, cid := range x.ids {
				if ecs.ComponentIDs(x.w)[id] == cid {
					n = name
				}
			}
			sa.Comps = append(sa.Comps, n)
		}
		sort.Strings(sa.Comps)
		for _, t := range a.Tables {
			sa.Tables = append(sa.Tables, [4]int{t.Size, t.Capacity, t.Memory, t.MemoryUsed})
		}
		r.Archs = append(r.Archs, sa)
	}
	return r
}

// dumpLoad: dump the entity state, load it into a second world (fresh, or used and reset), compare liveness of
// every handle and the handles the next creations return in both worlds; encode/decode handles (C17).
func (x *Exec) dumpLoad(op GenOp, lo *LogOp) {
	d := x.w.Unsafe().DumpEntities()
	if op.Mode != "nojson" {
		// the dump itself travels through JSON
		b, err := json.Marshal(&d)
		if err != nil {
			panic(err)
		}
		d = ecs.EntityDump{}
		if err := json.Unmarshal(b, &d); err != nil {
			panic(err)
		}
	}
	w2 := ecs.NewWorld(x.Cfg.Caps...)
	for i := 0; i < x.Cfg.Fill; i++ {
		ecs.TypeID(w2, reflect.ArrayOf(i+1, reflect.TypeFor[uint8]()))
	}
	for _, c := range x.Cfg.Comps {
		ecs.TypeID(w2, compTypes[c])
	}
	if op.Mode == "reset" {
		// a world that was used before and reset
		es := []ecs.Entity{}
		for i := 0; i < 5; i++ {
			es = append(es, w2.NewEntity())
		}
		w2.RemoveEntity(es[1])
		w2.RemoveEntity(es[3])
		w2.NewEntity()
		w2.Reset()
	}
	// DumpCopy: every world loads its own deserialised copy of the dump, as worlds living in different processes
	// would (C12: the outcome must not depend on whether the worlds share a process and with it the dump object)
	dumpFor := func() *ecs.EntityDump {
		if !x.Cfg.DumpCopy {
			return &d
		}
		b, err := json.Marshal(&d)
		if err != nil {
			panic(err)
		}
		c := ecs.EntityDump{}
		if err := json.Unmarshal(b, &c); err != nil {
			panic(err)
		}
		return &c
	}
	w2.Unsafe().LoadEntities(dumpFor())
	for _, h := range x.issued {
		if w2.Alive(h) {
			lo.Alive2 = append(lo.Alive2, h)
		}
	}
	lo.Used2 = w2.Stats().Entities.Used
	for i := 0; i < op.N; i++ {
		lo.Ret2 = append(lo.Ret2, w2.NewEntity())
	}
	// the loaded world lives on (removals, recycling); the dump must stay a snapshot: load it once more
	for _, h := range lo.Ret2 {
		w2.RemoveEntity(h)
	}
	if len(lo.Alive2) > 0 {
		w2.RemoveEntity(lo.Alive2[0])
	}
	w2.NewEntity()
	w3 := ecs.NewWorld(x.Cfg.Caps...)
	w3.Unsafe().LoadEntities(dumpFor())
	for _, h := range x.issued {
		if w3.Alive(h) {
			lo.Alive3 = append(lo.Alive3, h)
		}
	}
	lo.Used3 = w3.Stats().Entities.Used
	for i := 0; i < op.N; i++ {
		lo.Ret3 = append(lo.Ret3, w3.NewEntity())
	}
	// a loaded world is an ordinary world: after Reset it hands out the handles of a fresh world, and the zero
	// entity never becomes alive (C02 / C16)
	w3.Reset()
	w4 := ecs.NewWorld(x.Cfg.Caps...)
	for i := 0; i < 3; i++ {
		lo.Ret4 = append(lo.Ret4, w3.NewEntity())
		lo.Fresh4 = append(lo.Fresh4, w4.NewEntity())
	}
	lo.ZeroAlive = w3.Alive(ecs.Entity{})
	lo.Used4 = w3.Stats().Entities.Used
	for i := 0; i < op.N; i++ {
		lo.Ret = append(lo.Ret, x.w.NewEntity())
	}
	hs := append([]ecs.Entity{{}}, x.issued...)
	hs = append(hs, lo.Ret...)
	if len(hs) > 24 {
		hs = hs[len(hs)-24:]
	}
	// the entries of a dump as they are: the reserved ones carry the highest generation a handle can have, which
	// the monitor's integers cannot hold - they are compared here and a disagreement is logged as a marker triple
	if d2 := x.w.Unsafe().DumpEntities(); len(d2.Entities) > 0 {
		n := len(d2.Entities)
		if n > 4 {
			n = 4
		}
		for _, h := range d2.Entities[:n] {
			var j, b ecs.Entity
			jb, _ := json.Marshal(h)
			bb, _ := h.MarshalBinary()
			ab, _ := h.AppendBinary(make([]byte, 3, 16))
			_ = json.Unmarshal(jb, &j)
			_ = b.UnmarshalBinary(bb)
			if j != h || b != h || len(ab) != 11 || string(ab[3:]) != string(bb) {
				var m0, m1, m2 ecs.Entity
				_ = json.Unmarshal([]byte(fmt.Sprintf("[%d,0]", h.ID())), &m0)
				_ = json.Unmarshal([]byte(fmt.Sprintf("[%d,1]", h.ID())), &m1)
				_ = json.Unmarshal([]byte(fmt.Sprintf("[%d,2]", h.ID())), &m2)
				lo.Codec = append(lo.Codec, [3]ecs.Entity{m0, m1, m2})
			}
		}
	}
	// encode all handles first, decode afterwards: encodings must not share storage
	jbs, bbs := make([][]byte, len(hs)), make([][]byte, len(hs))
	for i, h := range hs {
		jbs[i], _ = json.Marshal(h)
		bbs[i], _ = h.MarshalBinary()
	}
	for i, h := range hs {
		var j, b ecs.Entity
		_ = json.Unmarshal(jbs[i], &j)
		_ = b.UnmarshalBinary(bbs[i])
		lo.Codec = append(lo.Codec, [3]ecs.Entity{h, j, b})
	}
	// malformed binary input must be rejected with an error: every length 0..16 except 8, as a slice of its own and
	// as a window into a larger buffer (spare capacity behind it); accepted: n resp. 100+n; panicked: 200+n resp. 300+n
	for n := 0; n <= 16; n++ {
		for k, buf := range [][]byte{make([]byte, n), make([]byte, 32)[4 : 4+n]} {
			func() {
				defer func() {
					if r := recover(); r != nil {
						lo.BinOK = append(lo.BinOK, 200+100*k+n)
					}
				}()
				var e ecs.Entity
				if e.UnmarshalBinary(buf) == nil {
					lo.BinOK = append(lo.BinOK, 100*k+n)
				}
			}()
		}
	}
}

// LogMem is a "mem" event (C11): after forced garbage collections, which heap objects written into pointer-bearing
// components were allocated during this history, which of them are still referenced from components of alive
// entities, and which were finalized.
type LogMem struct {
	K     string  `json:"k"`
	Alloc []int64 `json:"alloc"`
	Refd  []int64 `json:"refd"`
	Final []int64 `json:"final"`
}

func (x *Exec) memEvent() {
	for i := 0; i < 4; i++ {
		runtime.GC()
		time.Sleep(2 * time.Millisecond)
	}
	ev := LogMem{K: "mem", Alloc: []int64{}, Refd: []int64{}, Final: []int64{}}
	seen := map[int64]bool{}
	for _, h := range x.issued {
		if !x.w.Alive(h) {
			continue
		}
		ids := x.w.Unsafe().IDs(h)
		for i := 0; i < ids.Len(); i++ {
			c := x.names[ids.Get(i)]
			if !isRichName(c) {
				continue
			}
			s := x.serialOf(c, x.payload(c, x.w.Unsafe().Get(h, ids.Get(i))))
			if s != 0 && !seen[s] {
				seen[s] = true
				ev.Refd = append(ev.Refd, s)
			}
		}
	}
	heapMu.Lock()
	for s := range heapAlloc {
		ev.Alloc = append(ev.Alloc, s)
		if heapFinal[s] {
			ev.Final = append(ev.Final, s)
		}
	}
	heapMu.Unlock()
	sort.Slice(ev.Alloc, func(i, j int) bool { return ev.Alloc[i] < ev.Alloc[j] })
	sort.Slice(ev.Final, func(i, j int) bool { return ev.Final[i] < ev.Final[j] })
	sort.Slice(ev.Refd, func(i, j int) bool { return ev.Refd[i] < ev.Refd[j] })
	x.emit(ev)
}

// LogStats is a "stats" event: the statistics of the world under test and of its replayed twin.
type LogStats struct {
	K     string   `json:"k"`
	Stats StatsRec `json:"stats"`
	Twin  StatsRec `json:"twin"`
}

func (x *Exec) statsEvent() {
	x.emit(LogStats{K: "stats", Stats: x.statsRec(), Twin: x.twinStats()})
}

// twinStats replays the history so far on a fresh world without any intermediate Stats call and asks once (C19).
func (x *Exec) twinStats() StatsRec {
	cfg := x.Cfg
	cfg.Probes, cfg.Misuse, cfg.EveryOp = 0, 0, false
	t := NewExec(cfg, bufio.NewWriter(io.Discard))
	t.quiet = true
	t.newWorld()
	for i, op := range x.hist {
		t.run(op, i+1)
	}
	return t.statsRec()
}

// CbRec is one observer callback invocation with a snapshot of the world as seen from inside it.
type CbRec struct {
	O      int              `json:"o"`
	E      ecs.Entity       `json:"e"`
	Alive  bool             `json:"alive"`
	Seen   int              `json:"seen"`
	Locked bool             `json:"locked"`
	Ents   []EntRec         `json:"ents"`
	Panic  bool             `json:"panic"`
	PV     map[string]int64 `json:"pv"` // typed observers: values behind the pointers handed to the callback
}

type LogOp struct {
	K         string                `json:"k"`
	I         int                   `json:"i"`
	Op        string                `json:"op"`
	E         ecs.Entity            `json:"e"`
	Add       []string              `json:"add"`
	Rem       []string              `json:"rem"`
	Vals      map[string]int64      `json:"vals"`
	Tg        map[string]ecs.Entity `json:"tg"`
	N         int                   `json:"n"`
	F         int                   `json:"f"`
	Flt       LogFlt                `json:"flt"`
	Mode      string                `json:"mode"`
	Panic     bool                  `json:"panic"`
	Msg       string                `json:"msg"`
	Ret       []ecs.Entity          `json:"ret"`
	Bvals     []BVal                `json:"bvals"`
	O         int                   `json:"o"`
	Obs       GenObs                `json:"obs"`
	Ev        string                `json:"ev"`
	Late      bool                  `json:"late"`
	Caps      []TabCap              `json:"caps"`
	Alive2    []ecs.Entity          `json:"alive2"`
	Ret2      []ecs.Entity          `json:"ret2"`
	Alive3    []ecs.Entity          `json:"alive3"`
	Ret3      []ecs.Entity          `json:"ret3"`
	Used2     int                   `json:"used2"`
	Used3     int                   `json:"used3"`
	Ret4      []ecs.Entity          `json:"ret4"`
	Fresh4    []ecs.Entity          `json:"fresh4"`
	Used4     int                   `json:"used4"`
	ZeroAlive bool                  `json:"zeroalive"`
	Codec     [][3]ecs.Entity       `json:"codec"`
	BinOK     []int                 `json:"binok"`
	Iters     int                   `json:"iters"`
	Q         int                   `json:"q"`
	Ok        bool                  `json:"ok"`
	Res       Visit                 `json:"res"`
	Cbs       []CbRec               `json:"cbs"`
	Om        []ecs.Entity          `json:"om"` // handle of every creation ordinal (since the last Reset)
	St        State                 `json:"st"`
}

type Visit struct {
	E     ecs.Entity            `json:"e"`
	V     map[string]int64      `json:"v"`
	T     map[string]ecs.Entity `json:"t"`
	PtrEq bool                  `json:"ptreq"`
}

type LogProbe struct {
	K       string       `json:"k"`
	Flt     LogFlt       `json:"flt"`
	F       int          `json:"f"`
	Api     string       `json:"api"`
	Panic   bool         `json:"panic"`
	Msg     string       `json:"msg"`
	Visited []Visit      `json:"visited"`
	Count   int          `json:"count"`
	At      []ecs.Entity `json:"at"`
	// for a registered filter: what an identical unregistered filter yields at the same moment (C05)
	TwinVisited []ecs.Entity `json:"twin_visited"`
	TwinCount   int          `json:"twin_count"`
	TwinAt      []ecs.Entity `json:"twin_at"`
	TwinPanic   bool         `json:"twin_panic"`
	// a probe naming a removed entity as target (the typed API rejects a stale per-query target, the ID-based API
	// does not check: the API paths are not compared on these)
	Stale bool `json:"stale"`
}

type LogReset struct {
	K    string   `json:"k"`
	Seq  int      `json:"seq"`
	Rel  []string `json:"rel"`
	Cfg  Config   `json:"cfg"`
	Note string   `json:"note"`
}

// ---------------------------------------------------------------------------------------

// Config selects the quantifiers the specification does not range over.
type Config struct {
	Path       string   `json:"path"`   // unsafe | typed | map1 | exchange
	Caps       []int    `json:"caps"`   // NewWorld(caps...)
	Comps      []string `json:"comps"`  // model components, in registration order
	Fill       int      `json:"fill"`   // number of filler types registered first (ID layout)
	RelSt      string   `json:"relst"`  // idx | typ | id : how relation targets are passed to the typed API
	Perm       bool     `json:"perm"`   // permute type parameter order
	Probes     int      `json:"probes"` // max probes after each sequence (0 = none, <0 = all)
	Misuse     int      `json:"misuse"` // max misuse probes after each sequence
	Seed       int64    `json:"seed"`
	EveryOp    bool     `json:"everyop"`             // run the probe battery after every operation instead of at the end
	Reuse      bool     `json:"reuse"`               // keep unregistered filter objects and reuse them
	MaxEnt     int      `json:"maxent"`              // driver: soft bound on the number of alive entities
	Observers  int      `json:"observers"`           // driver: max simultaneously registered observers (0 = none)
	ResetP     int      `json:"resetp"`              // driver: per-mille probability of World.Reset / DumpLoad per step
	RegLocked  bool     `json:"reglocked"`           // driver: attempts to register a new component type while the world is locked
	UnbatchNew bool     `json:"unbatchnew"`          // ID-based path: batch creation as the single ID-based creations it corresponds to (C14)
	DumpCopy   bool     `json:"dumpcopy"`            // DumpLoad: every load gets its own deserialised copy of the dump (another process)
	ResP       int      `json:"resp"`                // driver: per-mille probability of a resource operation per step
	TypedObs   bool     `json:"typedobs"`            // register observers through Observer1..4 where the observed set allows
	Arity      bool     `json:"arity"`               // driver: draw component sets from the instantiated tuples of all arities
	GridArity  []int    `json:"gridarity,omitempty"` // coverage-guided targets: prefer the tuples of these arities (top-up runs of C14)
	Grid       int      `json:"grid"`                // percent of driver operations drawn coverage-guided (grid.go)
	Unbatch    bool     `json:"unbatch"`             // execute batch operations as the single-entity operations they abbreviate (C06)
	BatchN     int      `json:"batchn"`              // driver: maximum size of NewBatch (default 5)
	ObsP       int      `json:"obsp"`                // driver: per-mille probability of an observer operation per step
	RegMax     int      `json:"regmax"`              // registry histories: register at most this many types (0: beyond the build's limit)
	MapT       bool     `json:"mapt"`                // single-component operations through the hand-written ecs.Map[T] instead of Map1
	Mem        bool     `json:"mem"`                 // emit mem events (heap objects of pointer-bearing components after forced GC)
	GCStress   bool     `json:"gcstress"`            // collect garbage continuously in the background while histories run
	QMis       bool     `json:"qmis"`                // run the query / mapper misuse battery after each history (C20)
	Stats      bool     `json:"stats"`               // emit a stats event (with replayed twin) after each history
	Queries    int      `json:"queries"`             // driver: max simultaneously open queries (0 = none)
}

type regFilter struct {
	id  int
	flt GenFlt
	ft  map[string]ecs.Entity
	tf  TypedFilter
	f0  *ecs.Filter0
	ids []string // typed parameters of tf
}

type oldObs struct {
	o    *ecs.Observer
	spec string
}

// Exec executes sequences on a fresh world each.
type Exec struct {
	Cfg Config
	Out *bufio.Writer
	rng *rand.Rand

	w            *ecs.World
	ids          map[string]ecs.ID
	names        map[ecs.ID]string
	rel          map[string]bool
	ords         []ecs.Entity
	issued       []ecs.Entity
	maps         map[string]TypedMap
	exs          map[string]TypedExchange
	filters      map[int]*regFilter
	pool         map[string]*regFilter
	obs          map[int]*ecs.Observer
	tobs         map[int]TypedObserver
	tsets        [][]string
	gtargets     []gridTarget
	gqueue       []GenOp
	ghits        []int
	ghitsL       []int // hits of structural targets attempted while the world is locked
	readRot      int
	recent       []GenFlt
	queries      map[int]*openQuery
	cur          *LogOp
	opIndex      int
	hist         []GenOp
	quiet        bool
	oldObs       map[int]oldObs
	obsSpec      map[int]GenObs
	oldFilters   map[int]*regFilter
	custom       map[string]ecs.EventType
	res          map[string]resHandle
	regCount     int
	resRot       int
	oldIssued    []ecs.Entity // handles issued before the last Reset of this world object
	filtersBuilt int
	baseTypes    int // component types registered when the world was set up
	seq          int
	Events       int
	Panics       int
	Cover        map[string]int // API variants exercised (C14)
}

func NewExec(cfg Config, out *bufio.Writer) *Exec {
	return &Exec{Cfg: cfg, Out: out, rng: rand.New(rand.NewSource(cfg.Seed)), Cover: map[string]int{}}
}

// LogBroken is a "broken" event: a valid call of the harness itself into the library (reading the world to choose
// the next operation, or serialising what was read) panicked; the history ends here.
type LogBroken struct {
	K     string `json:"k"`
	Where string `json:"where"`
	Msg   string `json:"msg"`
}

func (x *Exec) emit(v any) {
	switch lo := v.(type) {
	case LogOp:
		if lo.Ret4 == nil {
			lo.Ret4 = []ecs.Entity{}
		}
		if lo.Fresh4 == nil {
			lo.Fresh4 = []ecs.Entity{}
		}
		v = lo
	case *LogOp:
		if lo.Ret4 == nil {
			lo.Ret4 = []ecs.Entity{}
		}
		if lo.Fresh4 == nil {
			lo.Fresh4 = []ecs.Entity{}
		}
	}
	b, err := func() (b []byte, err error) {
		defer func() {
			if r := recover(); r != nil {
				err = fmt.Errorf("%v", r)
			}
		}()
		if !entityJSONUsable || os.Getenv("ARKX_PLAINJSON") != "" {
			return plainJSON(v)
		}
		return json.Marshal(v)
	}()
	if err != nil {
		b, _ = json.Marshal(LogBroken{K: "broken", Where: "emit", Msg: fmt.Sprint(err)})
	}
	x.Out.Write(b)
	x.Out.WriteByte('\n')
	x.Events++
}

func isRelName(n string) bool  { return n == "R" || n == "S" || n == "Q" }
func isRichName(n string) bool { return n == "P" || n == "Q" }

func (x *Exec) newWorld() {
	x.w = ecs.NewWorld(x.Cfg.Caps...)
	x.ids = map[string]ecs.ID{}
	x.names = map[ecs.ID]string{}
	x.rel = map[string]bool{}
	for i := 0; i < x.Cfg.Fill; i++ {
		// filler types: distinct array types, registered first to shift the model's IDs
		ecs.TypeID(x.w, reflect.ArrayOf(i+1, reflect.TypeFor[uint8]()))
	}
	for _, c := range x.Cfg.Comps {
		id := ecs.TypeID(x.w, compTypes[c])
		x.ids[c] = id
		x.names[id] = c
		x.rel[c] = isRelName(c)
	}
	x.ords = x.ords[:0]
	x.issued = x.issued[:0]
	x.maps = map[string]TypedMap{}
	x.exs = map[string]TypedExchange{}
	x.filters = map[int]*regFilter{}
	x.pool = map[string]*regFilter{}
	x.obs = map[int]*ecs.Observer{}
	x.tobs = map[int]TypedObserver{}
	x.queries = map[int]*openQuery{}
	x.recent = nil
	resetHeapTracker()
	x.oldObs = map[int]oldObs{}
	x.obsSpec = map[int]GenObs{}
	x.oldFilters = map[int]*regFilter{}
	x.hist = x.hist[:0]
	reg := ecs.EventRegistry{}
	x.custom = map[string]ecs.EventType{"Custom0": reg.NewEventType(), "Custom1": reg.NewEventType()}
	x.initResources()
	x.oldIssued = nil
	x.regCount = 0
	x.baseTypes = len(ecs.ComponentIDs(x.w))
}

var builtinEvents = map[string]ecs.EventType{
	"OnCreateEntity": ecs.OnCreateEntity, "OnRemoveEntity": ecs.OnRemoveEntity, "OnAddComponents": ecs.OnAddComponents,
	"OnRemoveComponents": ecs.OnRemoveComponents, "OnSetComponents": ecs.OnSetComponents,
	"OnAddRelations": ecs.OnAddRelations, "OnRemoveRelations": ecs.OnRemoveRelations,
}

func (x *Exec) eventType(name string) ecs.EventType {
	if t, ok := builtinEvents[name]; ok {
		return t
	}
	if t, ok := x.custom[name]; ok {
		return t
	}
	panic(harnessBug{"unknown event type " + name})
}

func compsOf(names []string) []ecs.Comp {
	r := []ecs.Comp{}
	for _, n := range names {
		r = append(r, compComps[n])
	}
	return r
}

// callback is what every registered observer runs: it records a snapshot of the world as visible from inside.
func (x *Exec) callback(id int) func(e ecs.Entity) {
	return func(e ecs.Entity) {
		rec := CbRec{O: id, E: e, Ents: []EntRec{}, PV: map[string]int64{}}
		func() {
			defer func() {
				if r := recover(); r != nil {
					rec.Panic = true
				}
			}()
			rec.Locked = x.w.IsLocked()
			rec.Alive = !e.IsZero() && x.w.Alive(e)
			// enumerate the world through a query (entities created by the running operation are not
			// known to the harness yet); an entity yielded twice is counted in Seen
			q := ecs.NewFilter0(x.w).Query()
			got := map[ecs.Entity]bool{}
			for q.Next() {
				h := q.Entity()
				if h == e {
					rec.Seen++
				}
				if !got[h] {
					got[h] = true
					rec.Ents = append(rec.Ents, x.entRec(h))
				}
			}
		}()
		if x.cur != nil {
			x.cur.Cbs = append(x.cur.Cbs, rec)
		}
	}
}

func (x *Exec) relNames() []string {
	r := []string{}
	for _, c := range x.Cfg.Comps {
		if isRelName(c) {
			r = append(r, c)
		}
	}
	return r
}

func (x *Exec) ent(ord int) ecs.Entity {
	if ord <= 0 || ord > len(x.ords) {
		return ecs.Entity{}
	}
	return x.ords[ord-1]
}

func (x *Exec) tgMap(m FlexMap[int]) map[string]ecs.Entity {
	r := map[string]ecs.Entity{}
	for k, v := range m {
		r[k] = x.ent(v)
	}
	return r
}

// canon returns the registered type parameter order for a component set: any (seeded) permutation up to arity 3,
// the instantiated tuple with the same set above.
func (x *Exec) canon(names []string) []string {
	if len(names) <= 3 {
		return x.order(names)
	}
	set := map[string]bool{}
	for _, n := range names {
		set[n] = true
	}
	for _, key := range sortedKeys(mapCtors) {
		t := strings.Split(key, ",")
		if len(t) != len(names) {
			continue
		}
		ok := true
		for _, c := range t {
			if !set[c] {
				ok = false
			}
		}
		if ok {
			return t
		}
	}
	panic(harnessBug{"no instantiation for component set " + strings.Join(names, ",")})
}

// anyExTuple is the type parameter list of an ExchangeN that is only used for removing: irrelevant for the
// outcome, so in arity mode every N is used in turn.
func (x *Exec) anyExTuple() []string {
	if !x.Cfg.Arity {
		return []string{x.Cfg.Comps[0]}
	}
	x.readRot++
	ts := x.tupleSets()
	for k := 0; k < len(ts); k++ {
		t := ts[(x.readRot+k)%len(ts)]
		if len(t) <= 8 {
			if c := x.canonOrNil(t); c != nil {
				if _, ok := exCtors[strings.Join(c, ",")]; ok {
					return c
				}
			}
		}
	}
	return []string{x.Cfg.Comps[0]}
}

// writerFn is an initialisation callback that writes the given values through the handed-out pointers.
func (x *Exec) writerFn(tuple []string, vals FlexMap[int64]) func(ps []*int64) {
	vs := valsFor(tuple, vals)
	return func(ps []*int64) {
		for i := range ps {
			x.put(tuple[i], ps[i], vs[i])
		}
	}
}

// relTuple is the typed tuple a relation change goes through: the relation components themselves, or the
// (instantiated) tuple the generator asked for when it contains them.
func (x *Exec) relTuple(keys, hint []string) []string {
	if len(hint) > 0 {
		in := map[string]bool{}
		for _, c := range hint {
			in[c] = true
		}
		ok := true
		for _, k := range keys {
			if !in[k] {
				ok = false
			}
		}
		if ok {
			if t := x.canonMapOrNil(hint); t != nil {
				return t
			}
		}
	}
	return x.canon(keys)
}

func (x *Exec) canonMapOrNil(names []string) (t []string) {
	defer func() {
		if recover() != nil {
			t = nil
		}
	}()
	t = x.canon(names)
	if _, ok := mapCtors[strings.Join(t, ",")]; !ok {
		return nil
	}
	return t
}

func (x *Exec) canonOrNil(names []string) (t []string) {
	defer func() {
		if recover() != nil {
			t = nil
		}
	}()
	t = x.canon(names)
	if _, ok := filterCtors[strings.Join(t, ",")]; !ok {
		return nil
	}
	return t
}

func sortedKeys[V any](m map[string]V) []string {
	ks := make([]string, 0, len(m))
	for k := range m {
		ks = append(ks, k)
	}
	sort.Strings(ks)
	return ks
}

func (x *Exec) mapFor(tuple []string) TypedMap {
	key := strings.Join(tuple, ",")
	if x.Cfg.MapT && len(tuple) == 1 {
		if ctor, ok := mapTCtors[key]; ok {
			covHit(x.Cover, "Map")
			if m, ok := x.maps["T:"+key]; ok {
				return m
			}
			m := TypedMap(covMap{ctor(x.w), x.Cover, "Map"})
			x.maps["T:"+key] = m
			return m
		}
	}
	covHit(x.Cover, fmt.Sprintf("Map%d", len(tuple)))
	if m, ok := x.maps[key]; ok {
		return m
	}
	ctor, ok := mapCtors[key]
	if !ok {
		panic(harnessBug{"no typed map instantiation for " + key})
	}
	m := TypedMap(covMap{ctor(x.w), x.Cover, covName("Map", len(tuple))})
	x.maps[key] = m
	return m
}

func (x *Exec) exFor(tuple []string, rem []string) TypedExchange {
	key := strings.Join(tuple, ",") + "|" + strings.Join(rem, ",")
	covHit(x.Cover, fmt.Sprintf("Exchange%d", len(tuple)))
	if m, ok := x.exs[key]; ok {
		return m
	}
	ctor, ok := exCtors[strings.Join(tuple, ",")]
	if !ok {
		panic(harnessBug{"no typed exchange instantiation for " + key})
	}
	m := TypedExchange(covEx{ctor(x.w), x.Cover, covName("Exchange", len(tuple))})
	cs := []ecs.Comp{}
	for _, r := range rem {
		cs = append(cs, compComps[r])
	}
	m.Removes(cs...)
	x.exs[key] = m
	return m
}

// order returns the type parameter order for a component set (possibly permuted).  The permutation
// depends only on the seed, the index of the running operation and the names, so that a replay of the
// same history uses the same order.
func (x *Exec) order(names []string) []string {
	t := append([]string{}, names...)
	if x.Cfg.Perm && len(t) > 1 {
		h := fnv.New64a()
		fmt.Fprint(h, x.Cfg.Seed, x.opIndex, names)
		r := rand.New(rand.NewSource(int64(h.Sum64())))
		r.Shuffle(len(t), func(i, j int) { t[i], t[j] = t[j], t[i] })
	}
	return t
}

func (x *Exec) ordOf(h ecs.Entity) int {
	for i := len(x.ords) - 1; i >= 0; i-- {
		if x.ords[i] == h {
			return i + 1
		}
	}
	return 0
}

func (x *Exec) compIndex(c string) int {
	for i, n := range x.Cfg.Comps {
		if n == c {
			return i
		}
	}
	return 99
}

func valsFor(tuple []string, vals map[string]int64) []int64 {
	r := make([]int64, len(tuple))
	for i, c := range tuple {
		r[i] = vals[c]
	}
	return r
}

// relations for the typed API, given the type parameter tuple
func (x *Exec) typedRels(tuple []string, tg map[string]ecs.Entity) []ecs.Relation {
	keys := make([]string, 0, len(tg))
	for k := range tg {
		keys = append(keys, k)
	}
	sort.Strings(keys)
	r := []ecs.Relation{}
	if x.Cfg.MapT {
		mapTTargets = mapTTargets[:0] // (single goroutine: the concurrency runs do not use ecs.Map[T])
	}
	for _, k := range keys {
		if x.Cfg.MapT {
			mapTTargets = append(mapTTargets, tg[k])
		}
		idx := -1
		for i, c := range tuple {
			if c == k {
				idx = i
			}
		}
		switch {
		case x.Cfg.RelSt == "id" || idx < 0:
			r = append(r, ecs.RelID(x.ids[k], tg[k]))
		case x.Cfg.RelSt == "typ":
			r = append(r, relTyped(k, tg[k]))
		default:
			r = append(r, ecs.RelIdx(idx, tg[k]))
		}
	}
	return r
}

func relTyped(name string, t ecs.Entity) ecs.Relation {
	switch name {
	case "R":
		return ecs.Rel[CR](t)
	case "S":
		return ecs.Rel[CS](t)
	case "Q":
		return ecs.Rel[CQ](t)
	}
	panic("harness: not a relation component: " + name)
}

func (x *Exec) unsafeRels(tg map[string]ecs.Entity) []ecs.Relation {
	keys := make([]string, 0, len(tg))
	for k := range tg {
		keys = append(keys, k)
	}
	sort.Strings(keys)
	r := []ecs.Relation{}
	for _, k := range keys {
		r = append(r, ecs.RelID(x.ids[k], tg[k]))
	}
	return r
}

func (x *Exec) idsOf(names []string) []ecs.ID {
	r := make([]ecs.ID, len(names))
	for i, n := range names {
		r[i] = x.ids[n]
	}
	return r
}

func (x *Exec) payload(name string, p unsafe.Pointer) *int64 {
	return reflect.NewAt(compTypes[name], p).Interface().(compT).P()
}

// put writes a component payload through a pointer into the component; for pointer-bearing components the
// heap mirrors are rebuilt (fresh objects).  get decodes it (a negative marker if the pointee data is wrong).
func (x *Exec) put(c string, p *int64, v int64) {
	*p = v
	switch c {
	case "P":
		(*CP)(unsafe.Pointer(p)).Sync()
	case "Q":
		(*CQ)(unsafe.Pointer(p)).Sync()
	}
}

func (x *Exec) get(c string, p *int64) int64 {
	switch c {
	case "P":
		return (*CP)(unsafe.Pointer(p)).Decode()
	case "Q":
		return (*CQ)(unsafe.Pointer(p)).Decode()
	}
	return *p
}

func (x *Exec) serialOf(c string, p *int64) int64 {
	switch c {
	case "P":
		return (*CP)(unsafe.Pointer(p)).Serial()
	case "Q":
		return (*CQ)(unsafe.Pointer(p)).Serial()
	}
	return 0
}

func (x *Exec) writeUnsafe(e ecs.Entity, vals map[string]int64) {
	for c, v := range vals {
		x.put(c, x.payload(c, x.w.Unsafe().Get(e, x.ids[c])), v)
	}
}

// ---------------------------------------------------------------------------------------
// Projection of the real world (what layer A can see).

func (x *Exec) readVal(e ecs.Entity, c string) int64 {
	if x.Cfg.Path == "unsafe" {
		return x.get(c, x.payload(c, x.w.Unsafe().Get(e, x.ids[c])))
	}
	return x.get(c, x.mapFor([]string{c}).Get(e)[0])
}

func (x *Exec) readTarget(e ecs.Entity, c string) ecs.Entity {
	if x.Cfg.Path == "unsafe" {
		return x.w.Unsafe().GetRelation(e, x.ids[c])
	}
	return x.mapFor([]string{c}).GetRelation(e, 0)
}

func (x *Exec) entRec(e ecs.Entity) EntRec {
	r := EntRec{E: e, C: []string{}, V: map[string]int64{}, T: map[string]ecs.Entity{}}
	ids := x.w.Unsafe().IDs(e)
	for i := 0; i < ids.Len(); i++ {
		n, ok := x.names[ids.Get(i)]
		if !ok {
			n = fmt.Sprintf("?%v", ids.Get(i))
		}
		r.C = append(r.C, n)
	}
	sort.Strings(r.C)
	viaTuple := map[string]bool{}
	if x.Cfg.Arity && x.Cfg.Path != "unsafe" && len(r.C) >= 2 {
		// read through MapN.Get / GetRelation at a higher arity: one of the instantiated tuples the entity has
		has := map[string]bool{}
		for _, c := range r.C {
			has[c] = true
		}
		cands := [][]string{}
		for _, t := range x.tupleSets() {
			if len(t) < 2 {
				continue
			}
			ok := true
			for _, c := range t {
				if !has[c] {
					ok = false
				}
			}
			if ok {
				cands = append(cands, t)
			}
		}
		if len(cands) > 0 {
			x.readRot++
			tuple := x.canon(cands[x.readRot%len(cands)])
			m := x.mapFor(tuple)
			if !m.HasAll(e) {
				r.C = append(r.C, "?HasAll")
			}
			ps := m.Get(e)
			for i, c := range tuple {
				r.V[c] = x.get(c, ps[i])
				if x.rel[c] {
					r.T[c] = m.GetRelation(e, i)
				}
				viaTuple[c] = true
			}
		}
	}
	for _, c := range r.C {
		if _, ok := compTypes[c]; !ok || viaTuple[c] {
			continue
		}
		if x.Cfg.Arity && x.Cfg.Path != "unsafe" && !x.mapFor([]string{c}).HasAll(e) {
			r.C = append(r.C, "?Has"+c)
		}
		r.V[c] = x.readVal(e, c)
		if x.rel[c] {
			r.T[c] = x.readTarget(e, c)
		}
	}
	return r
}

func (x *Exec) project() (st State) {
	st = State{Alive: []ecs.Entity{}, Dead: []ecs.Entity{}, Ents: []EntRec{}, Res: map[string]int64{}, RelC: []string{}, OldAlive: []ecs.Entity{}, ResID: map[string]int{}, ResID0: map[string]int{}}
	defer func() {
		if r := recover(); r != nil {
			// a projection that panics is reported as an impossible state
			st.Used = -1
		}
	}()
	for _, h := range x.issued {
		if x.w.Alive(h) {
			st.Alive = append(st.Alive, h)
			st.Ents = append(st.Ents, x.entRec(h))
		} else {
			st.Dead = append(st.Dead, h)
		}
	}
	st.Locked = x.w.IsLocked()
	st.Used = x.w.Stats().Entities.Used
	st.Res = x.resState()
	st.ResID, st.ResID0 = x.resIDs()
	if len(x.oldIssued) > 0 {
		// (Alive reads the pool without a bounds check: only ids inside the pool's allocation are asked about)
		limit := x.w.Stats().Entities.Capacity
		for _, h := range x.oldIssued {
			if int(h.ID()) < limit && x.w.Alive(h) {
				st.OldAlive = append(st.OldAlive, h)
			}
		}
	}
	for _, c := range x.Cfg.Comps {
		if info, ok := ecs.ComponentInfo(x.w, x.ids[c]); ok && info.IsRelation {
			st.RelC = append(st.RelC, c)
		}
	}
	st.NTypes = len(ecs.ComponentIDs(x.w)) - x.baseTypes
	return st
}

func (x *Exec) logFlt(f GenFlt) LogFlt {
	nz := func(s []string) []string {
		if s == nil {
			return []string{}
		}
		return s
	}
	return LogFlt{With: nz(f.With), Without: nz(f.Without), Excl: f.Excl, Ft: x.tgMap(f.Ft), Qt: x.tgMap(f.Qt)}
}

// ---------------------------------------------------------------------------------------
// Filters.

// typedFilter builds a FilterN whose type parameters are (a prefix of) the with-list.
func (x *Exec) buildFilter(with, without []string, excl bool, ft map[string]ecs.Entity) (*regFilter, error) {
	rf := &regFilter{ft: ft}
	tuple := x.order(with)
	n := len(tuple)
	if n > 3 {
		// the longest instantiated prefix (arity <= 8) of the canonical order of the whole set, else 3
		n = 3
		if len(tuple) <= 8 {
			if c := x.canonOrNil(with); c != nil {
				tuple, n = c, len(c)
			}
		}
	}
	for n > 0 {
		if _, ok := filterCtors[strings.Join(tuple[:n], ",")]; ok {
			break
		}
		n--
	}
	if x.Cfg.Path == "unsafe" {
		n = 0
	}
	covHit(x.Cover, fmt.Sprintf("Filter%d", n))
	if n == 0 {
		f0 := ecs.NewFilter0(x.w)
		cs := []ecs.Comp{}
		for _, c := range tuple {
			cs = append(cs, compComps[c])
		}
		f0.With(cs...)
		rf.f0 = f0
		rf.ids = []string{}
	} else {
		ctor, ok := filterCtors[strings.Join(tuple[:n], ",")]
		if !ok {
			return nil, fmt.Errorf("no typed filter for %v", tuple[:n])
		}
		rf.tf = covFilter{ctor(x.w), x.Cover, covName("Filter", n)}
		cs := []ecs.Comp{}
		for _, c := range tuple[n:] {
			cs = append(cs, compComps[c])
		}
		rf.tf.With(cs...)
		rf.ids = tuple[:n]
	}
	wo := []ecs.Comp{}
	for _, c := range without {
		wo = append(wo, compComps[c])
	}
	if rf.f0 != nil {
		if excl {
			rf.f0.Exclusive()
		} else {
			rf.f0.Without(wo...)
		}
		if len(ft) > 0 {
			rf.f0.Relations(x.unsafeRels(ft)...)
		}
	} else {
		if excl {
			rf.tf.Exclusive()
		} else {
			rf.tf.Without(wo...)
		}
		if len(ft) > 0 {
			rels := x.typedRels(rf.ids, ft)
			x.filtersBuilt++
			if len(rels) >= 2 && x.filtersBuilt%2 == 0 {
				// every other filter with several fixed targets gets them in chained calls (they accumulate)
				for _, r := range rels {
					rf.tf.Relations(r)
				}
			} else {
				rf.tf.Relations(rels...)
				if x.filtersBuilt%2 == 1 {
					rf.tf.Relations() // a further call without targets adds nothing and takes nothing away
				}
			}
		}
	}
	return rf, nil
}

func (rf *regFilter) register() {
	if rf.f0 != nil {
		rf.f0.Register()
	} else {
		rf.tf.Register()
	}
}
func (rf *regFilter) unregister() {
	if rf.f0 != nil {
		rf.f0.Unregister()
	} else {
		rf.tf.Unregister()
	}
}
func (x *Exec) batchOf(rf *regFilter, qt map[string]ecs.Entity) ecs.Batch {
	if rf.f0 != nil {
		return rf.f0.Batch(x.unsafeRels(qt)...)
	}
	return rf.tf.Batch(x.typedRels(rf.ids, qt)...)
}

// filterFor returns the filter object for a batch/query: the registered one (f != 0) or a fresh one.
func (x *Exec) filterFor(f int, flt GenFlt) *regFilter {
	if f != 0 {
		if rf, ok := x.filters[f]; ok {
			return rf
		}
		panic(fmt.Sprintf("harness: filter %d is not registered", f))
	}
	key := ""
	if x.Cfg.Reuse {
		// long-lived filter objects, as applications keep them (filters are built once and reused
		// for queries and batches with varying per-query targets)
		key = fmt.Sprint(flt.With, flt.Without, flt.Excl, x.tgMap(flt.Ft))
		if rf, ok := x.pool[key]; ok {
			return rf
		}
	}
	rf, err := x.buildFilter(flt.With, flt.Without, flt.Excl, x.tgMap(flt.Ft))
	if err != nil {
		panic("harness: " + err.Error())
	}
	if x.Cfg.Reuse {
		x.pool[key] = rf
	}
	return rf
}

// ---------------------------------------------------------------------------------------
// Executing one operation.

type harnessBug struct{ msg string }

func (x *Exec) run(op GenOp, i int) LogOp {
	if op.Q == 0 && (op.Op == "QOpen" || op.Op == "QNext" || op.Op == "QClose") {
		op.Q = op.N // the generator carries the query id in n
	}
	e := x.ent(op.E)
	tg := x.tgMap(op.Tg)
	lo := LogOp{K: "op", I: i, Op: op.Op, E: e, Add: op.Add, Rem: op.Rem, Vals: map[string]int64{}, Tg: tg,
		N: op.N, F: op.F, Flt: x.logFlt(op.Flt), Mode: op.Mode, Ret: []ecs.Entity{}, Bvals: []BVal{},
		O: op.O, Obs: op.Obs, Ev: op.Ev, Cbs: []CbRec{}, Q: op.Q, Caps: []TabCap{}, Alive2: []ecs.Entity{}, Ret2: []ecs.Entity{}, Alive3: []ecs.Entity{}, Ret3: []ecs.Entity{}, Ret4: []ecs.Entity{}, Fresh4: []ecs.Entity{}, Codec: [][3]ecs.Entity{}, BinOK: []int{},
		Res: Visit{V: map[string]int64{}, T: map[string]ecs.Entity{}}}
	if lo.Obs.Obs == nil {
		lo.Obs.Obs = []string{}
	}
	if lo.Obs.With == nil {
		lo.Obs.With = []string{}
	}
	if lo.Obs.Without == nil {
		lo.Obs.Without = []string{}
	}
	switch op.Op {
	case "Set", "QOpen", "QNext", "QClose", "RegF", "UnregF", "RegO", "UnregO", "Emit", "Read":
	default:
		if x.w != nil && x.w.IsLocked() {
			// a structural attempt on a locked world is rejected: it does not count as exercising the variant
			atomic.AddInt32(&covOff, 1)
			defer atomic.AddInt32(&covOff, -1)
		}
	}
	x.cur = &lo
	x.opIndex = i
	x.hist = append(x.hist, op)
	defer func() { x.cur = nil }()
	if lo.Add == nil {
		lo.Add = []string{}
	}
	if lo.Rem == nil {
		lo.Rem = []string{}
	}
	for k, v := range op.Vals {
		lo.Vals[k] = v
	}
	func() {
		defer func() {
			if r := recover(); r != nil {
				if hb, ok := r.(harnessBug); ok {
					panic(hb.msg)
				}
				lo.Panic = true
				lo.Msg = fmt.Sprint(r)
				if len(lo.Msg) > 120 {
					lo.Msg = lo.Msg[:120]
				}
				x.Panics++
			}
		}()
		x.dispatch(op, e, tg, &lo)
	}()
	if lo.Panic {
		lo.Ret = []ecs.Entity{}
	}
	for _, h := range lo.Ret {
		x.ords = append(x.ords, h)
		x.issued = append(x.issued, h)
	}
	if op.Op == "Load" && !lo.Panic {
		// nothing is registered in the loaded world; wrappers bound to the old world are dropped (mode fresh) or
		// kept (mode reset: the same world object)
		keepOrds, keepIssued := append([]ecs.Entity{}, x.ords...), append([]ecs.Entity{}, x.issued...)
		if op.Mode != "reset" {
			x.maps = map[string]TypedMap{}
			x.exs = map[string]TypedExchange{}
			x.oldObs = map[int]oldObs{}
			x.oldFilters = map[int]*regFilter{}
		} else {
			for id, o := range x.obs {
				x.oldObs[id] = oldObs{o: o, spec: fmt.Sprint(x.obsSpec[id])}
			}
			for id, rf := range x.filters {
				x.oldFilters[id] = rf
			}
		}
		x.obs = map[int]*ecs.Observer{}
		x.tobs = map[int]TypedObserver{}
		x.obsSpec = map[int]GenObs{}
		x.queries = map[int]*openQuery{}
		x.filters = map[int]*regFilter{}
		x.pool = map[string]*regFilter{}
		x.recent = nil
		x.ords, x.issued = keepOrds, keepIssued
	}
	if op.Op == "Reset" && !lo.Panic {
		// the handles of the entities the Reset removed: none of them is alive until it is issued again
		x.oldIssued = append(x.oldIssued, x.issued...)
		if n := len(x.oldIssued); n > 48 {
			x.oldIssued = x.oldIssued[n-48:]
		}
		for id, o := range x.obs {
			x.oldObs[id] = oldObs{o: o, spec: fmt.Sprint(x.obsSpec[id])}
		}
		for id, rf := range x.filters {
			x.oldFilters[id] = rf
		}
		x.obs = map[int]*ecs.Observer{}
		x.tobs = map[int]TypedObserver{}
		x.queries = map[int]*openQuery{}
		x.ords = x.ords[:0]
		x.issued = x.issued[:0]
		x.filters = map[int]*regFilter{}
		x.pool = map[string]*regFilter{}
	}
	if !x.quiet {
		lo.St = x.project()
	}
	lo.Om = append([]ecs.Entity{}, x.ords...)
	return lo
}

func (x *Exec) dispatch(op GenOp, e ecs.Entity, tg map[string]ecs.Entity, lo *LogOp) {
	w := x.w
	u := w.Unsafe()
	unsafePath := x.Cfg.Path == "unsafe"
	noinit := op.Mode == "noinit"
	if x.Cfg.Unbatch {
		switch op.Op {
		case "AddBatch", "ExchangeBatch", "RemoveBatch", "SetRelBatch", "KillBatch":
			if x.unbatch(op, tg, lo) {
				covHit(x.Cover, "unbatched."+op.Op)
				return
			}
			covHit(x.Cover, "unbatch-not-applicable."+op.Op)
		}
	}
	switch op.Op {
	case "New":
		var h ecs.Entity
		switch {
		case len(op.Add) == 0:
			if unsafePath {
				h = u.NewEntity()
			} else {
				h = w.NewEntity()
			}
		case unsafePath:
			if len(tg) > 0 {
				h = u.NewEntityRel(x.idsOf(op.Add), x.unsafeRels(tg)...)
			} else {
				h = u.NewEntity(x.idsOf(op.Add)...)
			}
			lo.Ret = []ecs.Entity{h}
			lo.Late = true
			if !noinit {
				x.writeUnsafe(h, op.Vals)
			}
		default:
			tuple := x.canon(op.Add)
			m := x.mapFor(tuple)
			if noinit {
				h = m.NewEntityFn(nil, x.typedRels(tuple, tg))
			} else if op.Mode == "fn" {
				vs := valsFor(tuple, op.Vals)
				h = m.NewEntityFn(func(ps []*int64) {
					for i := range ps {
						x.put(tuple[i], ps[i], vs[i])
					}
				}, x.typedRels(tuple, tg))
			} else {
				h = m.NewEntity(valsFor(tuple, op.Vals), x.typedRels(tuple, tg))
			}
		}
		lo.Ret = []ecs.Entity{h}
	case "NewBatch":
		// values written per entity inside the batch callback: 1000*k + position, recorded in bvals
		if len(op.Add) == 0 {
			w.NewEntities(op.N, func(h ecs.Entity) {
				lo.Ret = append(lo.Ret, h)
				lo.Bvals = append(lo.Bvals, BVal{E: h, V: map[string]int64{}})
			})
			return
		}
		if x.Cfg.UnbatchNew && unsafePath {
			// C14, ID-based execution: there is no ID-based batch creation; the corresponding ID-based calls are n single
			// creations with the same component list, the values written through the pointers Unsafe.Get returns
			ids := x.idsOf(op.Add)
			rels := x.unsafeRels(tg)
			for k := 1; k <= op.N; k++ {
				var h ecs.Entity
				if len(rels) > 0 {
					h = u.NewEntityRel(ids, rels...)
				} else {
					h = u.NewEntity(ids...)
				}
				lo.Ret = append(lo.Ret, h)
				switch op.Mode {
				case "val":
					x.writeUnsafe(h, op.Vals)
				case "fn":
					bv := BVal{E: h, V: map[string]int64{}}
					vals := map[string]int64{}
					for _, c := range op.Add {
						v := int64(1000*k + 10*len(x.ords) + x.compIndex(c) + 1)
						vals[c] = v
						bv.V[c] = v
					}
					x.writeUnsafe(h, vals)
					lo.Bvals = append(lo.Bvals, bv)
				}
			}
			lo.Late = true
			return
		}
		tuple := x.canon(op.Add)
		m := x.mapFor(tuple)
		if op.Mode == "noinit" || op.Mode == "val" {
			// no callback: the components must read as zero (noinit) or as the given values (val); the new
			// handles are found by a scan
			if op.Mode == "val" {
				m.NewBatch(op.N, valsFor(tuple, op.Vals), x.typedRels(tuple, tg))
			} else {
				m.NewBatchFn(op.N, nil, x.typedRels(tuple, tg))
			}
			known := map[ecs.Entity]bool{}
			for _, h := range x.issued {
				known[h] = true
			}
			q := ecs.NewFilter0(w).Query()
			for q.Next() {
				if !known[q.Entity()] {
					lo.Ret = append(lo.Ret, q.Entity())
				}
			}
			return
		}
		k := 0
		m.NewBatchFn(op.N, func(h ecs.Entity, ps []*int64) {
			k++
			bv := BVal{E: h, V: map[string]int64{}}
			for i := range ps {
				v := int64(1000*k + 10*len(x.ords) + x.compIndex(tuple[i]) + 1)
				x.put(tuple[i], ps[i], v)
				bv.V[tuple[i]] = v
			}
			lo.Ret = append(lo.Ret, h)
			lo.Bvals = append(lo.Bvals, bv)
		}, x.typedRels(tuple, tg))
	case "Copy":
		lo.Ret = []ecs.Entity{w.CopyEntity(e)}
	case "Add":
		if unsafePath {
			if len(tg) > 0 {
				u.AddRel(e, x.idsOf(op.Add), x.unsafeRels(tg)...)
			} else {
				u.Add(e, x.idsOf(op.Add)...)
			}
			lo.Late = true
			if !noinit {
				x.writeUnsafe(e, op.Vals)
			}
			return
		}
		tuple := x.canon(op.Add)
		if x.Cfg.Path == "exchange" && len(tuple) <= 8 {
			ex := x.exFor(tuple, nil)
			if noinit {
				ex.AddFn(e, nil, x.typedRels(tuple, tg))
			} else if op.Mode == "fn" {
				ex.AddFn(e, x.writerFn(tuple, op.Vals), x.typedRels(tuple, tg))
			} else {
				ex.Add(e, valsFor(tuple, op.Vals), x.typedRels(tuple, tg))
			}
			return
		}
		m := x.mapFor(tuple)
		if noinit {
			m.AddFn(e, nil, x.typedRels(tuple, tg))
		} else if op.Mode == "fn" {
			m.AddFn(e, x.writerFn(tuple, op.Vals), x.typedRels(tuple, tg))
		} else {
			m.Add(e, valsFor(tuple, op.Vals), x.typedRels(tuple, tg))
		}
	case "Remove":
		if unsafePath {
			u.Remove(e, x.idsOf(op.Rem)...)
			return
		}
		if x.Cfg.Path == "exchange" {
			// ExchangeN needs at least one type parameter: use one the entity does not matter for
			x.exFor(x.anyExTuple(), op.Rem).Remove(e)
			return
		}
		x.mapFor(x.canon(op.Rem)).Remove(e)
	case "Exchange":
		if unsafePath || len(op.Add) == 0 || len(op.Add) > 8 {
			u.Exchange(e, x.idsOf(op.Add), x.idsOf(op.Rem), x.unsafeRels(tg)...)
			lo.Late = true
			if !noinit {
				x.writeUnsafe(e, op.Vals)
			}
			return
		}
		tuple := x.canon(op.Add)
		ex := x.exFor(tuple, op.Rem)
		if noinit {
			ex.ExchangeFn(e, nil, x.typedRels(tuple, tg))
		} else if op.Mode == "fn" {
			ex.ExchangeFn(e, x.writerFn(tuple, op.Vals), x.typedRels(tuple, tg))
		} else {
			ex.Exchange(e, valsFor(tuple, op.Vals), x.typedRels(tuple, tg))
		}
	case "Set":
		if unsafePath {
			// the ID-based API has no Set: write through the pointer (no event is emitted)
			lo.Mode = "ptr"
			x.writeUnsafe(e, op.Vals)
			return
		}
		tuple := x.canon(op.Add)
		x.mapFor(tuple).Set(e, valsFor(tuple, op.Vals))
	case "SetRel":
		if unsafePath {
			u.SetRelations(e, x.unsafeRels(tg)...)
			return
		}
		keys := []string{}
		for k := range tg {
			keys = append(keys, k)
		}
		sort.Strings(keys)
		tuple := x.relTuple(keys, op.Tup)
		x.mapFor(tuple).SetRelations(e, x.typedRels(tuple, tg))
	case "Kill":
		w.RemoveEntity(e)
	case "Read":
		// checked read access: Get / Has / GetRelation through the path under test
		c := op.Add[0]
		switch op.Mode {
		case "has":
			if unsafePath {
				_ = u.Has(e, x.ids[c])
			} else {
				_ = x.mapFor([]string{c}).HasAll(e)
			}
		case "rel":
			_ = x.readTarget(e, c)
		case "ids":
			_ = u.IDs(e)
		default:
			if unsafePath {
				_ = u.Get(e, x.ids[c])
			} else {
				_ = x.mapFor([]string{c}).Get(e)
			}
		}
	case "AddBatch", "ExchangeBatch":
		rf := x.filterFor(op.F, op.Flt)
		b := x.batchOf(rf, x.tgMap(op.Flt.Qt))
		tuple := x.canon(op.Add)
		fn := func(h ecs.Entity, ps []*int64) {
			bv := BVal{E: h, V: map[string]int64{}}
			for i := range ps {
				v := 100000 + 100*int64(x.ordOf(h)) + int64(x.compIndex(tuple[i])) + 3
				x.put(tuple[i], ps[i], v)
				bv.V[tuple[i]] = v
			}
			lo.Bvals = append(lo.Bvals, bv)
		}
		if op.Mode == "val" {
			// value form: the same component values for every selected entity
			vs := valsFor(tuple, op.Vals)
			if op.Op == "AddBatch" && (x.Cfg.Path != "exchange" || len(tuple) > 8) {
				x.mapFor(tuple).AddBatch(b, vs, x.typedRels(tuple, tg))
			} else if op.Op == "AddBatch" {
				x.exFor(tuple, nil).AddBatch(b, vs, x.typedRels(tuple, tg))
			} else {
				x.exFor(tuple, op.Rem).ExchangeBatch(b, vs, x.typedRels(tuple, tg))
			}
			return
		}
		if op.Op == "AddBatch" && (x.Cfg.Path != "exchange" || len(tuple) > 8) {
			x.mapFor(tuple).AddBatchFn(b, fn, x.typedRels(tuple, tg))
		} else if op.Op == "AddBatch" {
			x.exFor(tuple, nil).AddBatchFn(b, fn, x.typedRels(tuple, tg))
		} else {
			x.exFor(tuple, op.Rem).ExchangeBatchFn(b, fn, x.typedRels(tuple, tg))
		}
	case "RemoveBatch":
		rf := x.filterFor(op.F, op.Flt)
		b := x.batchOf(rf, x.tgMap(op.Flt.Qt))
		var cb func(h ecs.Entity)
		if op.Mode != "val" {
			cb = func(h ecs.Entity) {
				lo.Bvals = append(lo.Bvals, BVal{E: h, V: map[string]int64{}})
			}
		}
		if x.Cfg.Path == "exchange" {
			x.exFor(x.anyExTuple(), op.Rem).RemoveBatch(b, cb)
		} else {
			x.mapFor(x.canon(op.Rem)).RemoveBatch(b, cb)
		}
	case "SetRelBatch":
		rf := x.filterFor(op.F, op.Flt)
		b := x.batchOf(rf, x.tgMap(op.Flt.Qt))
		keys := []string{}
		for k := range tg {
			keys = append(keys, k)
		}
		sort.Strings(keys)
		tuple := x.relTuple(keys, op.Tup)
		x.mapFor(tuple).SetRelationsBatch(b, func(h ecs.Entity) {
			lo.Bvals = append(lo.Bvals, BVal{E: h, V: map[string]int64{}})
		}, x.typedRels(tuple, tg))
	case "KillBatch":
		rf := x.filterFor(op.F, op.Flt)
		b := x.batchOf(rf, x.tgMap(op.Flt.Qt))
		w.RemoveEntities(b, func(h ecs.Entity) {
			lo.Bvals = append(lo.Bvals, BVal{E: h, V: map[string]int64{}})
		})
	case "RegF":
		if old, ok := x.oldFilters[op.F]; ok && fmt.Sprint(old.flt.With, old.flt.Without, old.flt.Excl) == fmt.Sprint(op.Flt.With, op.Flt.Without, op.Flt.Excl) && len(op.Flt.Ft) == 0 && len(old.flt.Ft) == 0 {
			// a filter object that was registered before a Reset is registered again
			delete(x.oldFilters, op.F)
			old.register()
			x.filters[op.F] = old
			return
		}
		pkey := fmt.Sprint(op.Flt.With, op.Flt.Without, op.Flt.Excl, x.tgMap(op.Flt.Ft))
		if rf, ok := x.pool[pkey]; ok && x.Cfg.Reuse && len(x.queries) == 0 {
			// a long-lived filter object that has been used unregistered (queries, batches with per-call
			// targets) is registered now
			delete(x.pool, pkey)
			rf.id = op.F
			rf.flt = op.Flt
			rf.register()
			x.filters[op.F] = rf
			return
		}
		rf, err := x.buildFilter(op.Flt.With, op.Flt.Without, op.Flt.Excl, x.tgMap(op.Flt.Ft))
		if err != nil {
			panic(harnessBug{err.Error()})
		}
		rf.id = op.F
		rf.flt = op.Flt
		rf.register()
		x.filters[op.F] = rf
	case "UnregF":
		rf := x.filters[op.F]
		rf.unregister()
		delete(x.filters, op.F)
		if x.Cfg.Reuse && len(x.queries) == 0 {
			// the object stays in use as an unregistered filter
			pkey := fmt.Sprint(rf.flt.With, rf.flt.Without, rf.flt.Excl, x.tgMap(rf.flt.Ft))
			if _, ok := x.pool[pkey]; !ok {
				x.pool[pkey] = rf
			}
		}
	case "QOpen":
		if x.Cfg.Path == "unsafe" && op.F == 0 {
			lo.Mode = "unsafe"
		} else {
			lo.Mode = "typed"
		}
		x.queries[op.Q] = x.openQuery(op.F, op.Flt)
	case "QNext":
		q := x.queries[op.Q]
		lo.Ok = q.next(x, &lo.Res)
		if !lo.Ok {
			delete(x.queries, op.Q)
		}
	case "QClose":
		if q, ok := x.queries[op.Q]; ok {
			q.close()
			if op.Mode != "keep" {
				delete(x.queries, op.Q)
			}
		}
	case "RegO":
		if old, ok := x.oldObs[op.O]; ok && old.spec == fmt.Sprint(op.Obs) {
			// an observer object that was registered before a Reset is registered again
			delete(x.oldObs, op.O)
			old.o.Register(w)
			x.obs[op.O] = old.o
			x.obsSpec[op.O] = op.Obs
			return
		}
		x.obsSpec[op.O] = op.Obs
		if x.Cfg.TypedObs && len(op.Obs.Obs) >= 1 && len(op.Obs.Obs) <= 4 {
			tuple := x.canon(op.Obs.Obs)
			if ctor, ok := obsCtors[strings.Join(tuple, ",")]; ok {
				id := op.O
				plain := x.callback(id)
				to := ctor(x.eventType(op.Obs.Ev), nil, compsOf(op.Obs.With), compsOf(op.Obs.Without), op.Obs.Excl,
					func(e ecs.Entity, ps []*int64) {
						plain(e)
						if x.cur != nil && len(x.cur.Cbs) > 0 {
							rec := &x.cur.Cbs[len(x.cur.Cbs)-1]
							for i, c := range tuple {
								if ps[i] != nil {
									rec.PV[c] = x.get(c, ps[i])
								}
							}
						}
					})
				to.Register(w)
				x.tobs[op.O] = to
				covHit(x.Cover, fmt.Sprintf("Observer%d", len(tuple)))
				return
			}
		}
		covHit(x.Cover, "Observer")
		o := ecs.Observe(x.eventType(op.Obs.Ev)).For(compsOf(op.Obs.Obs)...).With(compsOf(op.Obs.With)...)
		if op.Obs.Excl {
			o = o.Exclusive()
		} else {
			o = o.Without(compsOf(op.Obs.Without)...)
		}
		o.Do(x.callback(op.O)).Register(w)
		x.obs[op.O] = o
	case "UnregO":
		if to, ok := x.tobs[op.O]; ok {
			to.Unregister(w)
			delete(x.tobs, op.O)
			return
		}
		x.obs[op.O].Unregister(w)
		delete(x.obs, op.O)
	case "Emit":
		w.Event(x.eventType(op.Ev)).For(compsOf(op.Add)...).Emit(e)
	case "DumpLoad":
		x.dumpLoad(op, lo)
	case "Shrink":
		switch op.Mode {
		case "one":
			w.Shrink(0)
		case "loop":
			// repeated time-limited calls must reach a state without remaining work
			lo.Ok = false
			for lo.Iters = 1; lo.Iters <= 5000; lo.Iters++ {
				if !w.Shrink(0) {
					lo.Ok = true
					break
				}
			}
			lo.Caps = x.tableCaps()
		default:
			lo.Ok = !w.Shrink()
			lo.Caps = x.tableCaps()
		}
	case "Reset":
		w.Reset()
	case "ResAdd", "ResRemove", "ResSet":
		x.resOp(op)
	case "RegType":
		// a component type the world has never seen is registered: rejected on a locked world (nothing changes)
		ecs.TypeID(w, reflect.ArrayOf(1000+x.regCount, reflect.TypeFor[uint8]()))
		x.regCount++
	case "Load":
		// the world continues as the one its own entity dump is loaded into (through JSON): a fresh world with the
		// same registrations (mode fresh), or this world after Reset (mode reset)
		d := w.Unsafe().DumpEntities()
		b, err := json.Marshal(&d)
		if err != nil {
			panic(err)
		}
		d = ecs.EntityDump{}
		if err := json.Unmarshal(b, &d); err != nil {
			panic(err)
		}
		if op.Mode == "reset" {
			w.Reset()
			w.Unsafe().LoadEntities(&d)
			// (the loaded pool is a new one: handles of earlier epochs of this world object were never issued by it)
			x.oldIssued = nil
			return
		}
		w2 := ecs.NewWorld(x.Cfg.Caps...)
		for i := 0; i < x.Cfg.Fill; i++ {
			ecs.TypeID(w2, reflect.ArrayOf(i+1, reflect.TypeFor[uint8]()))
		}
		for _, c := range x.Cfg.Comps {
			if id := ecs.TypeID(w2, compTypes[c]); id != x.ids[c] {
				panic(harnessBug{"component ids differ in the second world"})
			}
		}
		w2.Unsafe().LoadEntities(&d)
		x.oldIssued = nil
		x.baseTypes = len(ecs.ComponentIDs(w2)) - (len(ecs.ComponentIDs(w)) - x.baseTypes)
		x.w = w2
		for _, n := range resNames {
			x.res[n].rebind(w2)
		}
	default:
		panic(harnessBug{"unknown op " + op.Op})
	}
}

// ---------------------------------------------------------------------------------------
// Queries that stay open across operations (C07, C03).

type openQuery struct {
	tq  TypedQuery
	q0  *ecs.Query0
	uq  *ecs.UnsafeQuery
	ids []string
}

func (x *Exec) openQuery(f int, flt GenFlt) *openQuery {
	qt := x.tgMap(flt.Qt)
	if x.Cfg.Path == "unsafe" && f == 0 {
		uf := ecs.NewUnsafeFilter(x.w, x.idsOf(flt.With)...)
		if flt.Excl {
			uf = uf.Exclusive()
		} else if len(flt.Without) > 0 {
			uf = uf.Without(x.idsOf(flt.Without)...)
		}
		all := map[string]ecs.Entity{}
		for k, v := range x.tgMap(flt.Ft) {
			all[k] = v
		}
		for k, v := range qt {
			all[k] = v
		}
		q := uf.Query(x.unsafeRels(all)...)
		return &openQuery{uq: &q, ids: flt.With}
	}
	rf := x.filterFor(f, flt)
	if rf.f0 != nil {
		q := rf.f0.Query(x.unsafeRels(qt)...)
		return &openQuery{q0: &q, ids: []string{}}
	}
	return &openQuery{tq: rf.tf.Query(x.typedRels(rf.ids, qt)...), ids: rf.ids}
}

func (q *openQuery) next(x *Exec, v *Visit) bool {
	v.PtrEq = true
	switch {
	case q.uq != nil:
		if !q.uq.Next() {
			return false
		}
		v.E = q.uq.Entity()
		for _, c := range q.ids {
			p := q.uq.Get(x.ids[c])
			v.V[c] = x.get(c, x.payload(c, p))
			if p != x.w.Unsafe().Get(v.E, x.ids[c]) {
				v.PtrEq = false
			}
			if x.rel[c] {
				v.T[c] = q.uq.GetRelation(x.ids[c])
			}
		}
	case q.q0 != nil:
		if !q.q0.Next() {
			return false
		}
		v.E = q.q0.Entity()
	default:
		if !q.tq.Next() {
			return false
		}
		v.E = q.tq.Entity()
		ps := q.tq.Get()
		mp := x.mapFor(q.ids).Get(v.E)
		for i, c := range q.ids {
			v.V[c] = x.get(c, ps[i])
			if ps[i] != mp[i] {
				v.PtrEq = false
			}
			if x.rel[c] {
				v.T[c] = q.tq.GetRelation(i)
			}
		}
	}
	return true
}

func (q *openQuery) close() {
	switch {
	case q.uq != nil:
		q.uq.Close()
	case q.q0 != nil:
		q.q0.Close()
	default:
		q.tq.Close()
	}
}

// ---------------------------------------------------------------------------------------
// Probes: queries through the API path under test, logged for the monitor (C03, C05).

func (x *Exec) probe(f int, flt GenFlt, api string) LogProbe {
	lp := x.probe1(f, flt, api)
	lp.TwinVisited, lp.TwinAt = []ecs.Entity{}, []ecs.Entity{}
	if f != 0 {
		saved := x.Cfg.Reuse
		x.Cfg.Reuse = false
		tw := x.probe1(0, flt, api)
		x.Cfg.Reuse = saved
		for _, v := range tw.Visited {
			lp.TwinVisited = append(lp.TwinVisited, v.E)
		}
		lp.TwinCount, lp.TwinAt, lp.TwinPanic = tw.Count, tw.At, tw.Panic
	}
	return lp
}

func (x *Exec) probe1(f int, flt GenFlt, api string) LogProbe {
	lp := LogProbe{K: "probe", Flt: x.logFlt(flt), F: f, Api: api, Visited: []Visit{}, At: []ecs.Entity{}}
	func() {
		defer func() {
			if r := recover(); r != nil {
				lp.Panic = true
				lp.Msg = fmt.Sprint(r)
				if hb, ok := r.(harnessBug); ok {
					panic(hb.msg)
				}
			}
		}()
		qt := x.tgMap(flt.Qt)
		if api == "unsafe" && f == 0 {
			uf := ecs.NewUnsafeFilter(x.w, x.idsOf(flt.With)...)
			if flt.Excl {
				uf = uf.Exclusive()
			} else if len(flt.Without) > 0 {
				uf = uf.Without(x.idsOf(flt.Without)...)
			}
			all := map[string]ecs.Entity{}
			for k, v := range x.tgMap(flt.Ft) {
				all[k] = v
			}
			for k, v := range qt {
				all[k] = v
			}
			q := uf.Query(x.unsafeRels(all)...)
			lp.Count = q.Count()
			for i := 0; i < lp.Count; i++ {
				lp.At = append(lp.At, q.EntityAt(i))
			}
			for q.Next() {
				v := Visit{E: q.Entity(), V: map[string]int64{}, T: map[string]ecs.Entity{}, PtrEq: true}
				for _, c := range flt.With {
					p := q.Get(x.ids[c])
					v.V[c] = x.get(c, x.payload(c, p))
					if p != x.w.Unsafe().Get(v.E, x.ids[c]) {
						v.PtrEq = false
					}
					if x.rel[c] {
						v.T[c] = q.GetRelation(x.ids[c])
					}
				}
				lp.Visited = append(lp.Visited, v)
			}
			return
		}
		rf := x.filterFor(f, flt)
		if rf.f0 != nil {
			q := rf.f0.Query(x.unsafeRels(qt)...)
			lp.Count = q.Count()
			for i := 0; i < lp.Count; i++ {
				lp.At = append(lp.At, q.EntityAt(i))
			}
			for q.Next() {
				lp.Visited = append(lp.Visited, Visit{E: q.Entity(), V: map[string]int64{}, T: map[string]ecs.Entity{}, PtrEq: true})
			}
			return
		}
		q := rf.tf.Query(x.typedRels(rf.ids, qt)...)
		lp.Count = q.Count()
		for i := 0; i < lp.Count; i++ {
			lp.At = append(lp.At, q.EntityAt(i))
		}
		for q.Next() {
			v := Visit{E: q.Entity(), V: map[string]int64{}, T: map[string]ecs.Entity{}, PtrEq: true}
			ps := q.Get()
			mp := x.mapFor(rf.ids).Get(v.E)
			for i, c := range rf.ids {
				v.V[c] = x.get(c, ps[i])
				if ps[i] != mp[i] {
					v.PtrEq = false
				}
				if x.rel[c] {
					v.T[c] = q.GetRelation(i)
				}
			}
			lp.Visited = append(lp.Visited, v)
		}
	}()
	return lp
}

// probeCatalogue enumerates filters over the model components: with-sets of size <= 2, optional
// without / exclusive, and relation targets drawn from alive entities, the zero entity.
func (x *Exec) probeCatalogue() []GenFlt {
	comps := x.Cfg.Comps
	var withs [][]string
	withs = append(withs, []string{})
	for i, a := range comps {
		withs = append(withs, []string{a})
		for _, b := range comps[i+1:] {
			withs = append(withs, []string{a, b})
		}
	}
	if len(comps) >= 3 {
		withs = append(withs, append([]string{}, comps[:3]...))
	}
	// candidate targets as ordinals: 0 and every live ordinal
	tgs := []int{0}
	for i, h := range x.ords {
		if x.w.Alive(h) {
			tgs = append(tgs, i+1)
		}
	}
	out := []GenFlt{}
	for _, wi := range withs {
		in := map[string]bool{}
		for _, c := range wi {
			in[c] = true
		}
		variants := []GenFlt{{With: wi, Without: []string{}}, {With: wi, Without: []string{}, Excl: true}}
		for _, c := range comps {
			if !in[c] {
				variants = append(variants, GenFlt{With: wi, Without: []string{c}})
			}
		}
		for _, v := range variants {
			v.Ft, v.Qt = FlexMap[int]{}, FlexMap[int]{}
			out = append(out, v)
			for _, c := range wi {
				if !isRelName(c) {
					continue
				}
				for _, t := range tgs {
					a := v
					a.Ft, a.Qt = FlexMap[int]{c: t}, FlexMap[int]{}
					out = append(out, a)
					b := v
					b.Ft, b.Qt = FlexMap[int]{}, FlexMap[int]{c: t}
					out = append(out, b)
				}
			}
			// targets for two relation components at once: fixed + per query, both per query, both fixed
			rels := []string{}
			for _, c := range wi {
				if isRelName(c) {
					rels = append(rels, c)
				}
			}
			if len(rels) >= 2 {
				t2 := tgs
				if len(t2) > 4 {
					t2 = t2[:4]
				}
				for _, ta := range t2 {
					for _, tb := range t2 {
						a := v
						a.Ft, a.Qt = FlexMap[int]{rels[0]: ta}, FlexMap[int]{rels[1]: tb}
						b := v
						b.Ft, b.Qt = FlexMap[int]{}, FlexMap[int]{rels[0]: ta, rels[1]: tb}
						c := v
						c.Ft, c.Qt = FlexMap[int]{rels[0]: ta, rels[1]: tb}, FlexMap[int]{}
						out = append(out, a, b, c)
					}
				}
			}
		}
	}
	return out
}

func (x *Exec) battery() {
	if x.Cfg.Probes == 0 {
		return
	}
	// every registered filter, with per-query targets
	fids := []int{}
	for id := range x.filters {
		fids = append(fids, id)
	}
	sort.Ints(fids)
	for _, id := range fids {
		rf := x.filters[id]
		flt := rf.flt
		flt.Qt = FlexMap[int]{}
		x.emit(x.probe(id, flt, "typed"))
		for _, c := range flt.With {
			if !isRelName(c) {
				continue
			}
			if _, fixed := flt.Ft[c]; fixed {
				continue
			}
			for i, h := range x.ords {
				if x.w.Alive(h) {
					f2 := flt
					f2.Qt = FlexMap[int]{c: i + 1}
					x.emit(x.probe(id, f2, "typed"))
				}
			}
			f2 := flt
			f2.Qt = FlexMap[int]{c: 0}
			x.emit(x.probe(id, f2, "typed"))
		}
	}
	cat := x.probeCatalogue()
	n := len(cat)
	if x.Cfg.Probes > 0 && x.Cfg.Probes < n {
		x.rng.Shuffle(len(cat), func(i, j int) { cat[i], cat[j] = cat[j], cat[i] })
		n = x.Cfg.Probes
	}
	for _, flt := range cat[:n] {
		api := "typed"
		if x.Cfg.Path == "unsafe" {
			api = "unsafe"
		}
		x.emit(x.probe(0, flt, api))
	}
	x.staleProbes()
}

// staleProbes: queries naming a removed entity as relation target - preferably one whose id lives on under a new
// generation - must be rejected or select nothing (C03), through a filter built now with the target fixed and,
// ID-based, with the target passed per query.
func (x *Exec) staleProbes() {
	liveID := map[uint32]bool{}
	for _, h := range x.ords {
		if x.w.Alive(h) {
			liveID[h.ID()] = true
		}
	}
	recycled, dead := []int{}, []int{}
	for i, h := range x.ords {
		if !x.w.Alive(h) {
			if liveID[h.ID()] {
				recycled = append(recycled, i+1)
			} else {
				dead = append(dead, i+1)
			}
		}
	}
	// (chosen by ordinal only, so that executions of the same history that recycle ids in a different order - batched
	// and unbatched, typed and ID-based - ask about the same ordinals: the oldest and the latest removed entity, which
	// over a history are ids that live on and ids that do not)
	cand := append(recycled, dead...)
	sort.Ints(cand)
	if len(cand) > 2 {
		cand = []int{cand[0], cand[len(cand)-1]}
	}
	api := "typed"
	if x.Cfg.Path == "unsafe" {
		api = "unsafe"
	}
	for _, c := range x.Cfg.Comps {
		if !isRelName(c) {
			continue
		}
		for _, o := range cand {
			p1 := x.probe(0, GenFlt{With: []string{c}, Without: []string{}, Ft: FlexMap[int]{c: o}, Qt: FlexMap[int]{}}, api)
			p1.Stale = true
			x.emit(p1)
			p2 := x.probe(0, GenFlt{With: []string{c}, Without: []string{}, Ft: FlexMap[int]{}, Qt: FlexMap[int]{c: o}}, api)
			p2.Stale = true
			x.emit(p2)
		}
	}
}

// misuseOps enumerates calls that violate a documented precondition in the current state (C10):
// dead / recycled / zero handles in every checked single-entity operation, duplicate add, remove of a
// missing component, empty component lists, missing or dead relation targets.
func (x *Exec) misuseOps() []GenOp {
	ops := []GenOp{}
	comps := x.Cfg.Comps
	var plain, rels []string
	for _, c := range comps {
		if isRelName(c) {
			rels = append(rels, c)
		} else {
			plain = append(plain, c)
		}
	}
	mk := func(op string, e int, add, rem []string, tg FlexMap[int], mode string) GenOp {
		vals := FlexMap[int64]{}
		for _, c := range add {
			vals[c] = 77
		}
		if tg == nil {
			tg = FlexMap[int]{}
		}
		return GenOp{Op: op, E: e, Add: add, Rem: rem, Vals: vals, Tg: tg, N: 1, Mode: mode,
			Flt: GenFlt{With: []string{}, Without: []string{}, Ft: FlexMap[int]{}, Qt: FlexMap[int]{}}}
	}
	none := []string{}
	dead := []int{0}
	alive := []int{}
	for i, h := range x.ords {
		if x.w.Alive(h) {
			alive = append(alive, i+1)
		} else {
			dead = append(dead, i+1)
		}
	}
	firstDead := 0
	if len(dead) > 1 {
		firstDead = dead[1]
		// prefer a stale handle whose id has been recycled by an entity that is alive now
		liveIDs := map[uint32]bool{}
		for _, a := range alive {
			liveIDs[x.ords[a-1].ID()] = true
		}
		cands := []int{}
		for _, d := range dead[1:] {
			if liveIDs[x.ords[d-1].ID()] {
				cands = append(cands, d)
			}
		}
		if len(cands) > 0 && x.rng.Intn(4) != 0 {
			firstDead = cands[x.rng.Intn(len(cands))]
		} else if x.rng.Intn(2) == 0 {
			firstDead = dead[1+x.rng.Intn(len(dead)-1)]
		}
	}
	for _, d := range dead {
		for _, c := range plain {
			ops = append(ops, mk("Add", d, []string{c}, none, nil, "val"), mk("Remove", d, none, []string{c}, nil, "val"),
				mk("Set", d, []string{c}, none, nil, "val"), mk("Read", d, []string{c}, none, nil, "get"),
				mk("Read", d, []string{c}, none, nil, "has"))
		}
		if len(plain) > 1 {
			ops = append(ops, mk("Exchange", d, []string{plain[1]}, []string{plain[0]}, nil, "val"))
		}
		for _, r := range rels {
			ops = append(ops, mk("SetRel", d, none, none, FlexMap[int]{r: 0}, "val"), mk("Read", d, []string{r}, none, nil, "rel"),
				mk("Add", d, []string{r}, none, FlexMap[int]{r: 0}, "val"))
		}
		ops = append(ops, mk("Kill", d, none, none, nil, "val"), mk("Copy", d, none, none, nil, "val"),
			mk("Read", d, []string{comps[0]}, none, nil, "ids"))
	}
	for _, a := range alive {
		h := x.ords[a-1]
		has := map[string]bool{}
		ids := x.w.Unsafe().IDs(h)
		for i := 0; i < ids.Len(); i++ {
			has[x.names[ids.Get(i)]] = true
		}
		for _, c := range comps {
			tg := FlexMap[int]{}
			if isRelName(c) {
				tg[c] = 0
			}
			if has[c] {
				ops = append(ops, mk("Add", a, []string{c}, none, tg, "val"))
				if len(plain) > 0 && !has[plain[0]] {
					ops = append(ops, mk("Exchange", a, []string{c}, none, tg, "val"))
				}
			} else {
				ops = append(ops, mk("Remove", a, none, []string{c}, nil, "val"), mk("Set", a, []string{c}, none, nil, "val"))
				if isRelName(c) {
					ops = append(ops, mk("Add", a, []string{c}, none, nil, "val")) // relation target omitted
					if firstDead > 0 {
						ops = append(ops, mk("Add", a, []string{c}, none, FlexMap[int]{c: firstDead}, "val"))
					}
				}
			}
			if has[c] && isRelName(c) && firstDead > 0 {
				ops = append(ops, mk("SetRel", a, none, none, FlexMap[int]{c: firstDead}, "val"))
			}
		}
		if x.Cfg.Path == "unsafe" {
			// empty component lists can only be expressed through the ID-based API
			ops = append(ops, mk("Add", a, none, none, nil, "val"), mk("Remove", a, none, none, nil, "val"),
				mk("Exchange", a, none, none, nil, "val"))
		}
	}
	// batch forms: the selection is every alive entity (non-empty), at least one of which violates
	if len(alive) > 0 && x.Cfg.Path != "unsafe" {
		hasAny := map[string]bool{}
		lacksAny := map[string]bool{}
		for _, a := range alive {
			ids := x.w.Unsafe().IDs(x.ords[a-1])
			has := map[string]bool{}
			for i := 0; i < ids.Len(); i++ {
				has[x.names[ids.Get(i)]] = true
			}
			for _, c := range comps {
				if has[c] {
					hasAny[c] = true
				} else {
					lacksAny[c] = true
				}
			}
		}
		all := GenFlt{With: []string{}, Without: []string{}, Ft: FlexMap[int]{}, Qt: FlexMap[int]{}}
		for _, c := range comps {
			tg := FlexMap[int]{}
			if isRelName(c) {
				tg[c] = 0
			}
			if hasAny[c] {
				o := mk("AddBatch", 0, []string{c}, none, tg, "fn")
				o.Flt = all
				ops = append(ops, o)
			}
			if lacksAny[c] {
				o := mk("RemoveBatch", 0, none, []string{c}, nil, "fn")
				o.Flt = all
				ops = append(ops, o)
			}
			if isRelName(c) && !hasAny[c] {
				o := mk("AddBatch", 0, []string{c}, none, nil, "fn") // relation target omitted
				o.Flt = all
				ops = append(ops, o)
				if firstDead > 0 {
					o2 := mk("AddBatch", 0, []string{c}, none, FlexMap[int]{c: firstDead}, "fn")
					o2.Flt = all
					ops = append(ops, o2)
				}
			}
			if isRelName(c) && hasAny[c] && firstDead > 0 {
				o := mk("SetRelBatch", 0, none, none, FlexMap[int]{c: firstDead}, "fn")
				o.Flt = GenFlt{With: []string{c}, Without: []string{}, Ft: FlexMap[int]{}, Qt: FlexMap[int]{}}
				ops = append(ops, o)
			}
		}
	}
	// queries and batches that name a removed entity as relation target (typed API: checked when created)
	if firstDead > 0 && x.Cfg.Path != "unsafe" {
		for _, r := range rels {
			for _, extra := range [][]string{{}, plain} {
				with := append([]string{r}, extra...)
				if len(with) > 3 {
					with = with[:3]
				}
				o := mk("QOpen", 0, none, none, nil, "typed")
				o.Q = 900 + len(ops)
				o.Flt = GenFlt{With: with, Without: []string{}, Ft: FlexMap[int]{}, Qt: FlexMap[int]{r: firstDead}}
				ops = append(ops, o)
				o2 := mk("KillBatch", 0, none, none, nil, "fn")
				o2.Flt = GenFlt{With: with, Without: []string{}, Ft: FlexMap[int]{r: firstDead}, Qt: FlexMap[int]{}}
				ops = append(ops, o2)
			}
		}
	}
	for _, r := range rels {
		ops = append(ops, mk("New", 0, []string{r}, none, nil, "val")) // relation target omitted
		if firstDead > 0 {
			ops = append(ops, mk("New", 0, []string{r}, none, FlexMap[int]{r: firstDead}, "val"))
		}
	}
	return ops
}

func (x *Exec) misuseBattery(i int) {
	if x.Cfg.Misuse == 0 {
		return
	}
	ops := x.misuseOps()
	n := len(ops)
	if x.Cfg.Misuse > 0 && x.Cfg.Misuse < n {
		x.rng.Shuffle(len(ops), func(a, b int) { ops[a], ops[b] = ops[b], ops[a] })
		// calls that name an entity as relation target come first (few, and the most state dependent)
		sort.SliceStable(ops, func(a, b int) bool { return len(ops[a].Tg) > 0 && len(ops[b].Tg) == 0 })
		k := 0
		for k < len(ops) && len(ops[k].Tg) > 0 && ops[k].E != 0 {
			k++
		}
		if k > 4 {
			k = 4
		}
		n = x.Cfg.Misuse + k
		if n > len(ops) {
			n = len(ops)
		}
	}
	atomic.AddInt32(&covOff, 1)
	defer atomic.AddInt32(&covOff, -1)
	for k, op := range ops[:n] {
		lo := x.run(op, i+k+1)
		lo.K = "op"
		x.emit(lo)
	}
}

// RunSequence executes one generated sequence on a fresh world.
func (x *Exec) RunSequence(ops []GenOp, note string) {
	x.seq++
	x.newWorld()
	x.emit(LogReset{K: "reset", Seq: x.seq, Rel: x.relNames(), Cfg: x.Cfg, Note: note})
	if msg := x.guard(func() {
		for i, op := range ops {
			lo := x.run(op, i+1)
			x.emit(lo)
			if x.Cfg.EveryOp {
				x.battery()
			}
		}
		if !x.Cfg.EveryOp {
			x.battery()
		}
		if x.Cfg.Stats {
			x.statsEvent()
		}
		x.qmisBattery()
		if x.Cfg.Mem {
			x.memEvent()
		}
		x.misuseBattery(len(ops))
	}); msg != "" {
		x.emit(LogBroken{K: "broken", Where: "replay", Msg: msg})
	}
}
