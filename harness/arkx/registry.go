package arkx

import (
	"fmt"
	"reflect"
	"unsafe"

	"github.com/mlange-42/ark/ecs"
)

// LogReg is a "reg" event: one step of a registry history (C18).
type LogReg struct {
	K      string `json:"k"`
	Op     string `json:"op"`  // RegType | Lock | Unlock | Use | ResAdd | ResRemove | ResHas | ResGet
	T      int    `json:"t"`   // type token
	Ids    []int  `json:"ids"` // Use: the component ids of the probe entity
	Panic  bool   `json:"panic"`
	Id     int    `json:"id"`     // RegType / Res*: the id returned
	Locked bool   `json:"locked"` // world locked when the step ran
	Ok     bool   `json:"ok"`     // Use: entity created, found by has / query exactly once, removed; ResHas / ResGet: present
	Count  int    `json:"count"`  // number of registered component types after the step
	Max    int    `json:"max"`    // capacity of the build (256, or 64 with ark_tiny)
	Msg    string `json:"msg"`
}

func typeToken(n int) reflect.Type { return reflect.ArrayOf(n+1, reflect.TypeFor[uint8]()) }

// RegistryRun drives the component and resource registries to and beyond their capacity (C18).
func (x *Exec) RegistryRun(steps int) {
	x.seq++
	x.w = ecs.NewWorld(x.Cfg.Caps...)
	w := x.w
	max := MaskTotalBits
	limit := max + 6
	if x.Cfg.RegMax > 0 && x.Cfg.RegMax < limit {
		limit = x.Cfg.RegMax // stay within what every build configuration supports (C20)
	}
	x.emit(LogReset{K: "reset", Seq: x.seq, Rel: []string{}, Cfg: x.Cfg, Note: fmt.Sprint("registry max=", max)})
	var lockQ *ecs.Query0
	count := func() int { return len(ecs.ComponentIDs(w)) }
	em := func(r LogReg) {
		r.K, r.Max, r.Count = "reg", max, count()
		if r.Ids == nil {
			r.Ids = []int{}
		}
		x.emit(r)
	}
	try := func(f func()) (p bool, msg string) {
		defer func() {
			if r := recover(); r != nil {
				p, msg = true, fmt.Sprint(r)
				if len(msg) > 100 {
					msg = msg[:100]
				}
			}
		}()
		f()
		return
	}
	regType := func(t int) {
		r := LogReg{Op: "RegType", T: t, Locked: w.IsLocked(), Id: -1}
		r.Panic, r.Msg = try(func() { r.Id = idInt(ecs.TypeID(w, typeToken(t))) })
		em(r)
	}
	use := func(ids []int) {
		r := LogReg{Op: "Use", Ids: ids, Locked: w.IsLocked()}
		r.Panic, r.Msg = try(func() {
			cids := make([]ecs.ID, len(ids))
			all := ecs.ComponentIDs(w)
			for i, k := range ids {
				cids[i] = all[k]
			}
			u := w.Unsafe()
			e := u.NewEntity(cids...)
			ok := true
			for _, c := range cids {
				ok = ok && u.Has(e, c)
				p := u.Get(e, c)
				*(*uint8)(p) = 7
			}
			f := ecs.NewUnsafeFilter(w, cids...)
			q := f.Query()
			n := 0
			for q.Next() {
				if q.Entity() == e {
					n++
					for _, c := range cids {
						ok = ok && *(*uint8)(q.Get(c)) == 7
					}
				}
			}
			idl := u.IDs(e)
			ok = ok && n == 1 && idl.Len() == len(cids)
			// exclusive and excluding filters against entities that carry one more component: the highest and
			// the lowest registered id that is not in the list (mask inversion at every word boundary)
			inList := map[ecs.ID]bool{}
			for _, c := range cids {
				inList[c] = true
			}
			extras := []ecs.ID{}
			for k := len(all) - 1; k >= 0 && len(extras) < 1; k-- {
				if !inList[all[k]] {
					extras = append(extras, all[k])
				}
			}
			for k := 0; k < len(all) && len(extras) < 2; k++ {
				if !inList[all[k]] && (len(extras) == 0 || all[k] != extras[0]) {
					extras = append(extras, all[k])
				}
			}
			for _, x2 := range extras {
				e2 := u.NewEntity(append(append([]ecs.ID{}, cids...), x2)...)
				seen := func(q ecs.UnsafeQuery) (a, b int) {
					for q.Next() {
						if q.Entity() == e {
							a++
						}
						if q.Entity() == e2 {
							b++
						}
					}
					return
				}
				a, b := seen(f.Query())
				ok = ok && a == 1 && b == 1
				a, b = seen(f.Exclusive().Query())
				ok = ok && a == 1 && b == 0
				a, b = seen(f.Without(x2).Query())
				ok = ok && a == 1 && b == 0
				a, b = seen(ecs.NewUnsafeFilter(w, x2).Without(cids[0]).Query())
				ok = ok && a == 0 && b == 0
				a, b = seen(ecs.NewUnsafeFilter(w, x2).Query())
				ok = ok && a == 0 && b == 1
				w.RemoveEntity(e2)
			}
			if len(cids) > 1 {
				u.Remove(e, cids[0])
				ok = ok && !u.Has(e, cids[0]) && u.Has(e, cids[len(cids)-1])
			}
			w.RemoveEntity(e)
			r.Ok = ok && !w.Alive(e)
		})
		em(r)
	}
	// 0. long-lived typed handles (mappers, a filter, an exchange) created while the registry is almost empty;
	// they must keep working however many types are registered afterwards
	early := x.Cfg.Path != "unsafe"
	var em1, em2 TypedMap
	var ef1 TypedFilter
	var ex1 TypedExchange
	idA, idB := 0, 0
	if early {
		for k, c := range []string{"A", "B"} {
			r := LogReg{Op: "RegType", T: 9001 + k, Locked: w.IsLocked(), Id: -1}
			r.Panic, r.Msg = try(func() { r.Id = idInt(ecs.TypeID(w, compTypes[c])) })
			em(r)
			if k == 0 {
				idA = r.Id
			} else {
				idB = r.Id
			}
		}
		em1, em2, ef1, ex1 = mapCtors["A"](w), mapCtors["A,B"](w), filterCtors["A"](w), exCtors["B"](w)
	}
	useEarly := func() {
		if !early {
			return
		}
		r := LogReg{Op: "Use", Ids: []int{idA, idB}, Locked: w.IsLocked(), Msg: "early typed handles"}
		r.Panic, r.Msg = try(func() {
			e1 := em1.NewEntity([]int64{41}, nil)
			e2 := em2.NewEntity([]int64{42, 43}, nil)
			ok := x.get("A", em1.Get(e1)[0]) == 41 && x.get("A", em1.Get(e2)[0]) == 42
			p2 := em2.Get(e2)
			ok = ok && x.get("A", p2[0]) == 42 && x.get("B", p2[1]) == 43 && !em2.HasAll(e1) && em2.HasAll(e2)
			ex1.Add(e1, []int64{44}, nil)
			p1 := em2.Get(e1)
			ok = ok && em2.HasAll(e1) && x.get("A", p1[0]) == 41 && x.get("B", p1[1]) == 44
			n := 0
			q := ef1.Query()
			for q.Next() {
				if h := q.Entity(); h == e1 || h == e2 {
					n++
					want := int64(41)
					if h == e2 {
						want = 42
					}
					ok = ok && x.get("A", q.Get()[0]) == want
				}
			}
			ok = ok && n == 2
			// a table that did not exist when the handles were created: A together with the newest type
			if all := ecs.ComponentIDs(w); len(all) > 2 && idInt(all[len(all)-1]) != idA {
				e3 := w.Unsafe().NewEntity(all[idA], all[len(all)-1])
				ok = ok && em1.HasAll(e3)
				em1.Set(e3, []int64{45})
				ok = ok && x.get("A", em1.Get(e3)[0]) == 45
				n3 := 0
				q3 := ef1.Query()
				for q3.Next() {
					if q3.Entity() == e3 {
						n3++
						ok = ok && x.get("A", q3.Get()[0]) == 45
					}
				}
				ok = ok && n3 == 1
				ex1.Add(e3, []int64{46}, nil)
				ok = ok && x.get("B", em2.Get(e3)[1]) == 46
				w.RemoveEntity(e3)
			}
			em1.Remove(e2)
			ok = ok && !em1.HasAll(e2) && w.Alive(e2)
			w.RemoveEntity(e1)
			w.RemoveEntity(e2)
			r.Ok = ok && !w.Alive(e1) && !w.Alive(e2)
		})
		em(r)
	}
	// 1. fill the registry, with repeats and a few attempts on a locked world
	order := x.rng.Perm(limit)
	for i, t := range order {
		if i%32 == 3 || i == limit-1 {
			useEarly()
		}
		if i%17 == 5 {
			q := ecs.NewFilter0(w).Query()
			lockQ = &q
			em(LogReg{Op: "Lock", Locked: true})
			regType(t)                      // new type on a locked world: must panic, no id consumed
			regType(order[x.rng.Intn(i+1)]) // known type on a locked world: fine
			lockQ.Close()
			em(LogReg{Op: "Unlock"})
		}
		regType(t)
		if x.rng.Intn(4) == 0 {
			regType(order[x.rng.Intn(i+1)])
		}
		if c := count(); c > 0 && (x.rng.Intn(6) == 0 || c >= limit-7 || c%64 <= 1) {
			ids := []int{c - 1}
			if c > 2 {
				ids = []int{x.rng.Intn(c - 1), c - 1}
				if ids[0] > 0 && x.rng.Intn(2) == 0 {
					ids = []int{0, ids[0], c - 1}
				}
			}
			use(ids)
		}
	}
	// 2. every word boundary and the full set of the highest ids
	c := count()
	for _, k := range []int{0, 1, 62, 63, 64, 65, 126, 127, 128, 129, 190, 191, 192, 193, 254, 255} {
		if k < c {
			use([]int{k})
		}
	}
	if c >= 4 {
		use([]int{c - 4, c - 3, c - 2, c - 1})
	}
	// 3. resources: a partial map from type to value
	resIDs := map[int]ecs.ResID{}
	for i := 0; i < steps; i++ {
		t := x.rng.Intn(8)
		switch x.rng.Intn(4) {
		case 0:
			r := LogReg{Op: "ResAdd", T: t, Id: -1}
			r.Panic, r.Msg = try(func() {
				id := ecs.ResourceTypeID(w, typeToken(t))
				resIDs[t] = id
				v := t
				w.Resources().Add(id, &v)
			})
			em(r)
		case 1:
			r := LogReg{Op: "ResRemove", T: t}
			r.Panic, r.Msg = try(func() { w.Resources().Remove(ecs.ResourceTypeID(w, typeToken(t))) })
			em(r)
		case 2:
			r := LogReg{Op: "ResHas", T: t}
			r.Panic, r.Msg = try(func() { r.Ok = w.Resources().Has(ecs.ResourceTypeID(w, typeToken(t))) })
			em(r)
		default:
			r := LogReg{Op: "ResGet", T: t}
			r.Panic, r.Msg = try(func() {
				v := w.Resources().Get(ecs.ResourceTypeID(w, typeToken(t)))
				if v != nil {
					r.Ok = *(v.(*int)) == t
				}
			})
			em(r)
		}
	}
}

func idInt(id ecs.ID) int { return int(*(*uint8)(unsafe.Pointer(&id))) }
